from props.common import inst, Q, T

F = "filter"
TB = "rustc front end, kani-compiler MIR->goto translation, CBMC 6.11 + cadical; "
REGEX_STUBS = ["regex::bytes::Regex::is_match, regex::Regex::is_match, fancy_regex::Regex::is_match -> false (never executed: no regex criterion is "
               "constructed; needed because code that mentions the regex crates crashes kani-compiler 0.68)",
               "DltMessage::payload_as_text -> Ok(\"\") (never executed: no payload criterion is constructed)"]
PROP = {
    "manifest": dict(
        text="PARTIAL (matching core only). The real Filter::matches against a 30-line executable statement of the property, for ALL filters built from any subset of {enabled, negated, ECU/APID/CTID literal ids "
             "(arbitrary bytes), type value+mask, log-level min/max, lifecycle list of 0..2 ids} and ALL messages (arbitrary ECU, optional extended header with any apid/ctid/type byte, any lifecycle id): "
             "verdicts are equal; verdict independent of filter kind; defaults. NOT covered: regular-expression criteria, payload substring/regex/ignore-case, and ALL FOUR FRONT-ENDS and the JSON round trip "
             "(serde_json / quick-xml parsing is beyond bounded symbolic execution) - e.g. DLF payload filters always being case-insensitive or to_json dropping the type criterion are NOT detectable here.",
        note=TB + "regex / payload-text call targets stubbed (never executed in these harnesses).",
        technique="bounded model checking of the real code (Kani/CBMC): differential harness implementation vs executable specification, symbolic filter x symbolic message"),
    "inject": [("src/filter/filter_impl.rs", "filter.rs")],
    "functions": ["filter::Filter::matches", "filter::Filter::new", "Char4OrRegex::from_buf", "DltMessage::{apid,ctid,verb_mstp_mtin}", "DltChar4::{from_buf,as_buf,eq}"],
    "bounds": "exact for the criteria named (loop only over the lifecycle list, <= 2 entries); all 2^32 id values, all 256 type bytes/masks/levels",
    "stubs": REGEX_STUBS + ["alloc::fmt::format -> String::new() (error message construction)"],
    "outside": ["regular-expression criteria (ecu/apid/ctid/payload)", "payload substring and case-insensitive payload matching",
                "from_json / to_json / filters_from_dlf / filters_from_convert_format / EAC expressions (string parsing)", "lifecycle lists longer than 2"],
    "assumptions": [],
    "instances": [
        inst(F, "c11_matches_eq_spec", Q, "any filter (literal criteria) x any message", "matches == conjunction of specified criteria, negation, no-ext-header rule", covers=3, timeout=1800),
        inst(F, "c11_matches_kind_independent", Q, "any filter x any message x any kind", "verdict independent of kind / at_load_time", covers=1, timeout=1800),
        inst(F, "c11_new_filter_defaults", Q, "criteria-free filter x any message", "empty filter matches all; negated none; disabled none", covers=1),
        inst(F, "c11_char4_from_buf_len4", Q, "4-byte buffer, any bytes", "literal id accepted, bytes kept (incl. NUL)", covers=1),
        inst(F, "c11_char4_from_buf_len3", Q, "3-byte buffer", "short id refused", covers=1, timeout=300),
        inst(F, "c11_char4_from_buf_len5", Q, "5-byte buffer", "over-long id refused", covers=1, timeout=300),
    ],
}
