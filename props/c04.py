from props.common import inst, Q, T
from props.cuts import scale_cache_line, extract_low_mark_sites

F = "lmbr"
TB = "rustc front end, kani-compiler MIR->goto translation, CBMC 6.11 + cadical; "
PROP = {
    "manifest": dict(
        text="B1 the real LowMarkBufReader::{fill_buf,consume,read,seek} as inductive steps from an ARBITRARY reader state (pos <= cap <= capacity; cache line scaled to 8; (low mark, capacity) instances (1,9), (4,15), (8,16), (10,18) - below, at and above the cache line; source up to 3 cache "
             "lines) over a scripted source whose every read returns a solver-chosen count (all short-read schedules): bytes handed out are exactly the source's (ghost watch cell), position advances by exactly the amount "
             "consumed, >= low-mark bytes available or source exhausted, the source is never read into an empty slice (no early EOF), and every position an in-buffer seek ACCEPTS (also backwards, also after a compaction) delivers the source's byte (B1e). Because the start state is arbitrary, every interleaving of fill/consume/read/seek is covered. "
             "B2 both parsers give the same verdict on two views of any buffer that both contain the first frame + 4 bytes. B3 the low mark passed at the call sites covers the largest message + 4. "
             "Together with C01-L3 this gives chunking- and position-independence for streams of any length (paper composition). CUT: CACHE_LINE_SIZE scaled 4096 -> 8 in the scratch copy (CBMC needs > 30 GB for the real value).",
        note=TB + "constant scaling cut (listed); SeekFrom::End and I/O errors of the source outside; B2 buffers <= 36 B.",
        technique="bounded model checking of the real code (Kani/CBMC): inductive step from an arbitrary state with a nondeterministic read-size schedule and a ghost watch cell"),
    "inject": [("src/utils/lowmarkbufreader.rs", "lmbr.rs"), ("src/dlt/mod.rs", "dlt_frame.rs"), ("src/dlt/mod.rs", "lowmark_sites.rs")],
    "cuts": [scale_cache_line, extract_low_mark_sites],
    "functions": ["utils::LowMarkBufReader::{new,fill_buf,consume,read,seek,buffer}", "dlt::parse_dlt_with_storage_header", "dlt::parse_dlt_with_serial_header"],
    "bounds": "cache line 8 (scaled), (low mark, capacity) in {(1,9),(4,15),(8,16),(10,18)}, source <= capacity + 16 B, one operation per step from an arbitrary state; parser views: buffers <= 36 B",
    "stubs": ["alloc::fmt::format -> String::new()"],
    "outside": ["the real cache-line value 4096 (beyond CBMC: > 30 GB)", "SeekFrom::End", "I/O errors from the source", "composition of B1+B2+B3 with C01-L3 over a whole stream (paper)"],
    "assumptions": ["the source honours the Read contract: returns 0 only at its end or for an empty destination"],
    "instances": [
        inst(F, "c04_b1_fill_lm4_x3", Q, "low mark 4, capacity 15; any state, any read schedule", "B1a fill_buf: nothing lost/duplicated, low mark kept, no early EOF", covers=3, timeout=2400, cost=100),
        inst(F, "c04_b1_fill_lm1_x0", Q, "low mark 1, capacity 9 (minimal admissible)", "B1a fill_buf", covers=3, timeout=2400, cost=100),
        inst(F, "c04_b1_fill_lm10_x0", Q, "low mark 10 > cache line 8, capacity 18 (the production proportion: low mark above the cache line)", "B1a fill_buf", covers=3, timeout=2400, cost=150),
        inst(F, "c04_b1_fill_lm8_x0", Q, "low mark 8 == cache line, capacity 16", "B1a fill_buf", covers=3, timeout=3000, cost=100),
        inst(F, "c04_b1_consume_lm4_x3", Q, "low mark 4, capacity 15; any state, any n", "B1b consume + fill_buf", covers=2, timeout=2400, cost=100),
        inst(F, "c04_b1_consume_lm10_x0", Q, "low mark 10, capacity 18", "B1b consume + fill_buf", covers=2, timeout=3000, cost=150),
        inst(F, "c04_b1_read_lm4_x3", Q, "low mark 4, capacity 15; read(n <= 6)", "B1c read: next bytes, exact advance, 0 only at end", covers=2, timeout=2400, cost=100),
        inst(F, "c04_b1_read_lm10_x0", Q, "low mark 10, capacity 18; read(n <= 6)", "B1c read", covers=2, timeout=3000, cost=150),
        inst(F, "c04_b1_seek_lm4_x3", Q, "low mark 4, capacity 15; seek(Start|Current) to any target", "B1d in-window seek exact; out-of-window refused, state intact", covers=2, timeout=2400, cost=100),
        inst(F, "c04_b1_seekback_lm4_x3", Q, "low mark 4, capacity 15; fill (any schedule, compaction included), then seek to ANY position incl. before the read position", "B1e every position seek() accepts delivers the source's byte (backward seeks after compaction)", covers=2, timeout=2400, cost=120),
        inst(F, "c04_b1_seekback_lm10_x0", T, "low mark 10, capacity 18", "B1e backward seek after fill", covers=2, timeout=3000, cost=150),
        inst(F, "c04_b1_seek_lm10_x0", Q, "low mark 10, capacity 18", "B1d seek", covers=2, timeout=3000, cost=150),
        inst("dlt_frame", "c04_b2_view_serial_26", Q, "any 26 B buffer starting with the marker, two views >= frame + 4", "B2 view independence (serial parser)", covers=2, timeout=2400, mem_gb=24),
        inst("dlt_frame", "c04_b2_view_storage_36", Q, "any 36 B buffer starting with the marker, two views >= frame + 4", "B2 view independence (storage parser)", covers=2, timeout=3300, mem_gb=24),
        inst("lowmark_sites", "c04_b3_low_mark_covers_lookahead", Q, "call sites in convert.rs and remote.rs", "B3 low mark >= largest message + 4", covers=1),
    ],
}
