"""Textual cuts applied to the scratch copy only (never to /repo). Each returns a description for the evidence,
or raises Inconclusive when its anchor text is gone (refactored code must not be checked against stale text)."""
import os
import re
import sys

sys.path.insert(0, os.path.join(os.path.dirname(os.path.dirname(os.path.abspath(__file__))), "lib"))
from vrun import Inconclusive  # noqa: E402


def _match_brace(s, i):
    """s[i] == '{' -> index of the matching '}' (no string/char literal handling needed for the kernels cut here)"""
    depth = 0
    j = i
    while j < len(s):
        c = s[j]
        if c == '/' and s[j:j + 2] == '//':
            j = s.index('\n', j)
            continue
        if c == '{':
            depth += 1
        elif c == '}':
            depth -= 1
            if depth == 0:
                return j
        j += 1
    raise Inconclusive("unbalanced braces while extracting kernel")


def extract_lc_comparator(src, tier):
    """closure passed to sort_by / sort_by_key in get_sorted_lifecycles_as_vec -> fn extracted_cmp in the harness module"""
    p = os.path.join(src, "src/lifecycle/mod.rs")
    s = open(p).read()
    f = s.find("pub fn get_sorted_lifecycles_as_vec")
    if f < 0:
        raise Inconclusive("get_sorted_lifecycles_as_vec not found")
    body_end = s.find("\n}\n", f)
    body = s[f:body_end]
    m = re.search(r"sorted_lcs\s*\.\s*sort_by\(\s*\|\s*a\s*,\s*b\s*\|\s*\{", body)
    mk = re.search(r"sorted_lcs\s*\.\s*sort_by_key\(\s*\|\s*(\w+)\s*\|\s*", body)
    mc = re.search(r"sorted_lcs\s*\.\s*sort_by_cached_key\(\s*\|\s*(\w+)\s*\|\s*", body)
    if m:
        i = f + m.end() - 1
        j = _match_brace(s, i)
        kernel = s[i:j + 1]
        fn = "\n// ---- generated: comparator closure extracted from get_sorted_lifecycles_as_vec ----\n" \
             "#[allow(clippy::all)]\nfn extracted_cmp(a: &Lifecycle, b: &Lifecycle) -> std::cmp::Ordering " + kernel + "\n"
        kind = "sort_by closure"
    elif mk or mc:
        mm = mk or mc
        var = mm.group(1)
        i = f + mm.end()
        # key expression up to the closing ')' of sort_by_key( ... )
        depth = 1
        j = i
        while j < len(s) and depth > 0:
            if s[j] in "([{":
                depth += 1
            elif s[j] in ")]}":
                depth -= 1
            j += 1
        expr = s[i:j - 1]
        fn = "\n// ---- generated: key closure extracted from get_sorted_lifecycles_as_vec ----\n" \
             "#[allow(clippy::all)]\nfn extracted_cmp(a: &Lifecycle, b: &Lifecycle) -> std::cmp::Ordering {\n" \
             "    fn key(%s: &Lifecycle) -> impl Ord { %s }\n    key(a).cmp(&key(b))\n}\n" % (var, expr)
        kind = "sort_by_key closure"
    else:
        raise Inconclusive("no sorted_lcs.sort_by(|a, b| {..}) / sort_by_key(|x| ..) in get_sorted_lifecycles_as_vec")
    # the whole listing step: every statement between the `.collect();` that builds sorted_lcs and the returned `sorted_lcs`
    mcol = re.search(r"let mut sorted_lcs[^=]*=\s*lcr\b.*?\.collect\(\);\n", body, re.S)
    mret = re.search(r"\n\s*sorted_lcs\s*$", body)
    if not mcol or not mret:
        raise Inconclusive("get_sorted_lifecycles_as_vec: cannot locate 'let mut sorted_lcs = lcr...collect();' ... 'sorted_lcs'")
    stmts = body[mcol.end():mret.start()]
    fn += "\n// ---- generated: the statements of get_sorted_lifecycles_as_vec after the collect(), verbatim ----\n" \
          "#[allow(clippy::all)]\nfn listing_sort<'a>(mut sorted_lcs: std::vec::Vec<&'a Lifecycle>) -> std::vec::Vec<&'a Lifecycle> {\n" \
          + stmts + "\n    sorted_lcs\n}\n"
    dst = os.path.join(src, "src/lifecycle/verif_kani_lc.rs")
    open(dst, "a").write(fn)
    return "source-extracted kernel: the statements of lifecycle::get_sorted_lifecycles_as_vec after collecting the evmap entries (%s and what " \
           "follows) pasted verbatim as fn listing_sort / fn extracted_cmp (the function's parameter, an evmap read guard, cannot be built under Kani)" % kind


def scale_cache_line(src, tier):
    p = os.path.join(src, "src/utils/lowmarkbufreader.rs")
    s = open(p).read()
    m = re.search(r"const CACHE_LINE_SIZE: usize = (\d+);", s)
    if not m:
        raise Inconclusive("const CACHE_LINE_SIZE not found in lowmarkbufreader.rs")
    val = 8
    s = s[:m.start()] + "const CACHE_LINE_SIZE: usize = %d;" % val + s[m.end():]
    open(p, "w").write(s)
    return "constant scaling: lowmarkbufreader::CACHE_LINE_SIZE %s -> %d (CBMC cannot handle copy_within over a 4 KiB array with symbolic ranges: > 30 GB)" % (m.group(1), val)


def extract_low_mark_sites(src, tier):
    """third argument of LowMarkBufReader::new( .. ) at the call sites in src/bin -> const LOW_MARK_SITES in the harness"""
    sites = []
    for rel in ("src/bin/adlt/convert.rs", "src/bin/adlt/remote.rs"):
        p = os.path.join(src, rel)
        if not os.path.exists(p):
            raise Inconclusive("call-site file %s not found" % rel)
        s = open(p).read()
        test_at = s.find("#[cfg(test)]")
        for m in re.finditer(r"LowMarkBufReader::new\(", s):
            if test_at >= 0 and m.start() > test_at:
                continue
            i = m.end()
            depth = 1
            args = [""]
            while i < len(s) and depth > 0:
                c = s[i]
                if c in "([{":
                    depth += 1
                elif c in ")]}":
                    depth -= 1
                    if depth == 0:
                        break
                if c == "," and depth == 1:
                    args.append("")
                else:
                    args[-1] += c
                i += 1
            args = [re.sub(r"//[^\n]*", "", a).strip() for a in args]
            args = [a for a in args if a]
            if len(args) != 3:
                raise Inconclusive("LowMarkBufReader::new call with %d arguments in %s" % (len(args), rel))
            sites.append((rel, args[2]))
    if len(sites) < 2:
        raise Inconclusive("expected LowMarkBufReader::new call sites in convert.rs and remote.rs, found %d" % len(sites))
    dst = os.path.join(src, "src/dlt/verif_kani_lowmark_sites.rs")
    txt = "\n// ---- generated: low-mark argument expressions of the call sites ----\n" \
          "#[allow(unused_imports)]\nuse crate::dlt::*;\nconst LOW_MARK_SITES: [usize; %d] = [%s];\n" % (
              len(sites), ", ".join("(%s) as usize" % e for _r, e in sites))
    open(dst, "a").write(txt)
    return "source-extracted constants: low-mark argument of LowMarkBufReader::new at %s" % "; ".join("%s: `%s`" % s for s in sites)


def extract_sorter(src, tier):
    """utils::buffer_sort_messages -> fn verif_sort_messages in the harness module: the CURRENT body, verbatim, with the parameter types and
    the std hash/tree maps replaced by models (see harness/sort.rs)"""
    p = os.path.join(src, "src/utils/mod.rs")
    s = open(p).read()
    m = re.search(r"pub fn buffer_sort_messages<[^>]*(?:->[^>]*>)?[^(]*\(", s)
    f = s.find("pub fn buffer_sort_messages")
    if f < 0:
        raise Inconclusive("utils::buffer_sort_messages not found")
    # signature ends at the first '{' that follows the where clause / return type at nesting depth 0 of () and <>
    sig_end = s.find("\n{\n", f)
    if sig_end < 0:
        raise Inconclusive("buffer_sort_messages: signature end not found")
    sig = s[f:sig_end]
    for needle in ("inflow: Receiver<DltMessage>", "outflow: &F", "lcs_r: &evmap::ReadHandle<", "windows_size_secs: u8", "min_buffer_delay_us: u64",
                   "Result<(), SendError<DltMessage>>", "F: Fn(DltMessage) -> SendMsgFnReturnType"):
        if needle not in sig:
            raise Inconclusive("buffer_sort_messages: signature changed (%s missing)" % needle)
    i = sig_end + 1
    j = _match_brace(s, i)
    body = s[i:j + 1]
    subs = [("std::collections::HashMap::<", "VerifVecMap::<"), ("std::collections::BTreeMap::<", "VerifVecMap::<"),
            ("BinaryHeap::with_capacity(1024 * 1024)", "BinaryHeap::with_capacity(4)")]
    done = []
    for a, b in subs:
        n = body.count(a)
        if n != 1:
            raise Inconclusive("buffer_sort_messages: expected exactly one '%s' in the body, found %d" % (a, n))
        body = body.replace(a, b)
        done.append("%s -> %s" % (a, b))
    for forbidden in ("HashMap", "BTreeMap", "HashSet", "BTreeSet"):
        if forbidden in re.sub(r"//[^\n]*", "", body):
            raise Inconclusive("buffer_sort_messages: unexpected container %s in the body (the model substitution list is stale)" % forbidden)
    for needed in ("lcs_r.read()", ".get_one(", "for m in inflow", "outflow("):
        if needed not in body:
            raise Inconclusive("buffer_sort_messages: '%s' no longer in the body" % needed)
    fn = "\n// ---- generated: body of utils::buffer_sort_messages, verbatim except the container/parameter substitutions ----\n" \
         "#[allow(clippy::all)]\npub fn verif_sort_messages<F: Fn(DltMessage) -> SendMsgFnReturnType>(\n" \
         "    inflow: Vec<DltMessage>,\n    outflow: &F,\n    lcs_r: &VerifLcTable,\n    windows_size_secs: u8,\n    min_buffer_delay_us: u64,\n" \
         ") -> Result<(), SendError<DltMessage>>\n" + body + "\n"
    dst = os.path.join(src, "src/utils/verif_kani_sort.rs")
    open(dst, "a").write(fn)
    return "source-extracted function: the body of utils::buffer_sort_messages pasted verbatim as fn verif_sort_messages with the substitutions " \
           "inflow: Receiver<DltMessage> -> Vec<DltMessage>, lcs_r: &evmap::ReadHandle -> &VerifLcTable (constant 2-entry table model), " + "; ".join(done)
