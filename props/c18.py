from props.common import inst, Q, T

F = "dlt_args"
TB = "rustc front end, kani-compiler MIR->goto translation, CBMC 6.11 + cadical; "
NAMES = ["bool", "u8", "u16", "u32", "u64", "i8", "i16", "i32", "i64", "f32", "f64", "str", "ascii", "raw"]
QUICK_SER = {"bool", "u16", "i64", "f32", "str", "ascii", "raw"}
SER = [inst(F, "c18_v1_ser_%s" % n, Q, "1 value of kind %s, value/bytes symbolic" % n, "V1 Serializer -> iterator agreement", covers=2, timeout=1800)
       for n in NAMES]
SER += [inst(F, "c18_v1_ser_%s_%s" % (NAMES[a], NAMES[b]), Q, "2 values of kinds %s, %s" % (NAMES[a], NAMES[b]),
             "V1 Serializer -> iterator agreement (chained)", covers=2, timeout=2400, mem_gb=24, cost=100) for a, b in ((11, 3), (13, 0), (2, 11), (12, 8), (10, 13))]

SER += [inst(F, "c18_v1_ser_str_l2", Q, "1 &str of exactly 2 bytes (2 ASCII or one 2-byte code point)", "V1 Serializer -> iterator agreement", covers=2, timeout=1800),
        inst(F, "c18_v1_ser_str_l3", Q, "1 &str of exactly 3 bytes (any well-formed UTF-8)", "V1 Serializer -> iterator agreement", covers=2, timeout=1800),
        inst(F, "c18_v1_ser_str_l3_u8", Q, "&str of exactly 3 bytes, u8", "V1 Serializer -> iterator agreement (chained)", covers=2, timeout=2400, mem_gb=24)]

TXT = [inst("dlt_text", "c18_v3_text_" + n, tiers, d, "V3 canonical text + separator rule", covers=1, timeout=3400, mem_gb=24) for n, tiers, d in (
    ("bool", T, "1 bool"), ("u8", T, "1 u8, all values"), ("i8", T, "1 i8, all values"), ("u8_bool", T, "u8, bool"),
    ("emptyraw_u8", T, "empty raw, u8"), ("emptystr_bool", T, "empty string, bool"), ("nulstr_i8", T, "NUL-only string, i8"),
    ("bool_emptyraw_u8", T, "bool, empty raw, u8"), ("emptyraw_emptystr_u8", T, "empty raw, empty string, u8"))]

PROP = {
    "manifest": dict(
        text="WITHOUT TEXT. V1 encode/decode agreement: both encoders (utils::payload_from_args in both byte orders; serde_verb_payload::Serializer, host order) -> real DltMessageArgIterator: k <= 2 arguments (3 arguments of symbolic kind run out of memory at 30 GB) of "
             "symbolic kind (bool, u8..u64, i8..i64, f32/f64 as raw bits, UTF-8/ASCII strings and raw bytes of 0..3 B) decode to exactly k arguments with the same type info and raw bytes, then None. V2 a payload cut at any point "
             "decodes to a prefix of the original arguments; on ARBITRARY payload bytes (<= 16 B: every truncation/corruption) each returned slice lies inside the payload and iteration terminates. "
             "NOT covered: the TEXT rendering (V3 of the design). A harness for the cheap part (bool / 8-bit / empty arguments, separator rule; harness/dlt_text.rs, kept unregistered) finishes in 30 s on a "
             "variant of process_msg_arg_iter without `.enumerate()` but not within 57 min / 24 GB on the pinned code: CBMC loses the constant type info behind Enumerate and explores every rendering branch (u128 itoa, core::fmt). "
             "So 'canonical text' is outside this check.",
        note=TB + "string bytes of the serde &str path: every well-formed UTF-8 string of at most 3 bytes (assumed constructively; std's validator is not in the query).",
        technique="bounded model checking of the real code (Kani/CBMC): encoder -> decoder agreement with symbolic argument kinds and bytes"),
    "inject": [("src/dlt/mod.rs", "dlt_args.rs")],
    "kf_roles": ["c18_empty_strg_rawd_no_length"],
    "functions": ["utils::payload_from_args", "serde_verb_payload::Serializer (serialize_bool/u8..u64/i8..i64/f32/f64/str/bytes/newtype_variant)", "serde_verb_payload::add_to_serializer",
                  "dlt::DltMessageArgIterator::next", "<&DltMessage as IntoIterator>::into_iter"],
    "bounds": "<= 2 arguments, variable-length arguments <= 3 B, arbitrary payloads <= 16 B",
    "stubs": [],
    "outside": ["DltMessage::payload_as_text / process_msg_arg_iter: all text rendering incl. the separator rule (see manifest text)",
                "more than 3 arguments; strings longer than 3 bytes; VARI/FIXP/array/struct type infos (decoder returns None by design)"],
    "assumptions": [],
    "instances": [
        inst(F, "c18_v1_pfa_k1", Q, "1 argument, any kind, both byte orders", "V1 payload_from_args -> iterator agreement", covers=2, timeout=2400),
        inst(F, "c18_v1_pfa_k2", Q, "2 arguments, any kinds, both byte orders", "V1 payload_from_args -> iterator agreement", covers=2, timeout=2400, mem_gb=24, cost=100),
    ] + SER + [
        inst(F, "c03_u2_arg_iter_any_12", Q, "arbitrary payload <= 12 B", "V2 slices inside payload, terminates", covers=2, timeout=2400),
        inst(F, "c18_v2_truncation_prefix", Q, "valid 2-argument payload cut at any point", "V2 decoded sequence is a prefix", covers=2, timeout=2400, mem_gb=24, cost=100),
        inst(F, "c18_v1_witness_empty_strg", Q, "empty raw argument followed by u8", "witness of known finding", kf_witness="c18_empty_strg_rawd_no_length"),
        inst(F, "c03_u2_arg_iter_any_16", Q, "arbitrary payload <= 16 B", "V2 slices inside payload, terminates", covers=2, timeout=3000, mem_gb=24),
    ],
}
