from props.common import inst, Q, T

F = "send_helper"
TB = "rustc front end, kani-compiler MIR->goto translation, CBMC 6.11 + cadical; "
PROP = {
    "manifest": dict(
        text="PARTIAL (blocking-send helper branch logic only; NO schedule is explored). The real utils::sync_sender_send_delay_if_full with the channel as nondeterministic "
             "environment (try_send -> Ok | Full(m) | Disconnected(m), send -> Ok | Err(m), sleep -> no-op): for every outcome combination and message value the solver shows the helper "
             "returns Ok iff the message was handed to the channel exactly once, otherwise returns SendError with the very same message, never delivers twice. "
             "NOT covered: every interleaving, FIFO order of std's channel, stages draining their receiver, termination when the consumer disappears (Kani does not model threads; "
             "std::sync::mpsc crashes kani-compiler).",
        note=TB + "std::sync::mpsc::SyncSender::{try_send,send} and thread::sleep replaced by contract models (listed as stubs); a counter-example is replayed natively against a real "
                  "sync_channel(1) driven into the same outcome by helper threads.",
        technique="bounded model checking of the real code (Kani/CBMC) with nondeterministic environment stubs for the channel"),
    "inject": [("src/utils/mod.rs", "send_helper.rs")],
    "functions": ["utils::sync_sender_send_delay_if_full::<u64>", "utils::sync_sender_send_delay_if_full::<DltMessage>"],
    "bounds": "exact (loop-free): 3 try_send outcomes x 2 send outcomes x all u64 values / all DltMessage header values",
    "stubs": ["std::sync::mpsc::SyncSender::try_send -> arbitrary Ok | Full(m) | Disconnected(m) (ghost delivery counter)",
              "std::sync::mpsc::SyncSender::send -> arbitrary Ok | Err(m)", "std::thread::sleep -> no-op",
              "harness-internal env_prepare / env_delivered: native real-channel adapters, replaced by ghost models under Kani"],
    "outside": ["thread interleavings, channel capacities, FIFO order of std's channel", "each stage consuming its receiver to exhaustion; termination when the consumer disappears",
                "equality of the final lifecycle table between bounded and unbounded channels"],
    "assumptions": ["std's SyncSender honours its documented contract (try_send/send return the message on failure, deliver exactly once on success)"],
    "instances": [
        inst(F, "c13_send_helper_try_ok", Q, "try_send = Ok; any u64", "Ok <=> delivered exactly once", covers=2),
        inst(F, "c13_send_helper_try_full", Q, "try_send = Full; send Ok|Err; any u64", "delays, then Ok<=>delivered once / Err carries the message", covers=2),
        inst(F, "c13_send_helper_try_disconnected", Q, "try_send = Disconnected; any u64", "Err carries the message, nothing delivered", covers=2),
        inst(F, "c13_send_helper_dltmessage", Q, "T = DltMessage, all outcomes", "same for the pipeline's message type", covers=3),
    ],
}
