from props.common import inst, Q, T
from props import dlt_shapes as S

F = "dlt_frame"
TB = "rustc front end, kani-compiler MIR->goto translation, CBMC 6.11 + cadical; "
FMT = "alloc::fmt::format -> String::new() (error message construction)"

ACC = []
for name, storage, f, plen, tail, nxt, tier, gap in S.accept_shapes():
    ACC.append(inst(F, name, Q if tier == "quick" else T,
                    "%s framing, header flags 0x%02x (ext=%d ecu=%d sid=%d ts=%d), payload %d B, tail %d B%s; endian+version bits and all other bytes symbolic" % (
                        "storage" if storage else "serial", f, f & 1, (f >> 2) & 1, (f >> 3) & 1, (f >> 4) & 1, plen, tail, (", next marker after %d garbage bytes" % gap) if nxt else ""),
                    "L1 accept: exactly this message is returned (length, index, every header field, payload)", covers=1,
                    timeout=2400, cost=S.hdr_size(f) + plen + tail + (16 if storage else 4), mem_gb=16))

F2 = "dlt_iter"
IT = []
for nm, desc, tiers, cost in (
        ("c01_it_st_m0_g0_t2", "storage, nothing detected yet, 0 garbage, 2 tail", T, 500),
        ("c01_it_st_m0_g1_t2", "storage, nothing detected yet, 1 garbage byte, 2 tail (added after seeded change C01-2)", T, 600),
        ("c01_it_st_m1_g0_t2", "storage, storage detected, 0 garbage, 2 tail", T, 400),
        ("c01_it_st_m1_g1_t2", "storage, storage detected, 1 garbage, 2 tail", T, 500),
        ("c01_it_st_m1_g2_t3", "storage, storage detected, 2 garbage, 3 tail", T, 200),
        ("c01_it_st_m1_g3_t2", "storage, storage detected, 3 garbage, 2 tail", T, 300),
        ("c01_it_se_m0_g0_t2", "serial, nothing detected yet, 0 garbage, 2 tail (stream shorter than 20 B)", T, 400),
        ("c01_it_se_m0_g0_t0", "serial, nothing detected yet, 0 garbage, no tail (stream of exactly one 8-byte message; 536 s: as expensive as the 2-tail variant, so thorough as well)", T, 200),
        ("c01_it_se_m2_g0_t2", "serial, serial detected, 0 garbage, 2 tail", Q, 300),
        ("c01_it_se_m2_g1_t2", "serial, serial detected, 1 garbage, 2 tail", T, 400),
        ("c01_it_se_m2_g3_t3", "serial, serial detected, 3 garbage, 3 tail", T, 300)):
    IT.append(inst(F2, nm, tiers, desc + "; index/bytes_processed/bytes_skipped symbolic", "L3 iterator step: message yielded, counters exact, mode set, short tail left", covers=1,
                   timeout=3000, mem_gb=24, cost=cost,
                   # the iterator's outer `loop` gets its own bound (garbage + message + exit); a global bound of 30 unrolls
                   # it 30 times with two parser bodies each and never leaves symbolic execution
                   unwindset=[("Iterator>::next", int(nm.split("_g")[1][0]) + 3)]))

ABS = [inst("dlt_iter_abs", "c01_abs_" + n, T, d + "; 9-byte stream with model message sizes 4 (storage) / 2 (serial), symbolic message positions (any number of messages, garbage runs of any length anywhere), index/bytes_processed/bytes_skipped symbolic",
            "L3' iterator over whole streams against parser contract models: every message found in order, consecutive numbering, skipped == garbage, processed <= input", covers=3, timeout=3000, mem_gb=30, cost=900)
       for n, d in (("storage_undetected", "storage framing, nothing detected yet"), ("storage_detected", "storage framing, storage detected"),
                    ("serial_undetected", "serial framing, nothing detected yet"), ("serial_detected", "serial framing, serial detected"))]

PROP = {
    "manifest": dict(
        text="Induction steps of the framing statement, each decided by the solver on the real parsers and the real DltMessageIterator::next: L1 accept (2 framings x 16 header-flag shapes x payload 0..5 B x tail 0..8 B, incl. "
             "'next marker follows directly' and 'next marker after 1..4 garbage bytes': exactly this message with every field intact; quick: 6 shapes + 1 drawn by VERIF_SEED, thorough: all 186), L1c field extraction for all 256 header-type "
             "bytes, L2 reject (any start without the marker, buffers <= 40 B: never Ok, right error kind), L1b/B2 look-ahead locality, L4 length arithmetic on arbitrary buffers, L3 iterator plumbing as ONE real next() from an ARBITRARY "
             "iterator state (index/bytes_processed/bytes_skipped symbolic, each framing-flag state; garbage <= 3 B): message numbered with the current index, counters exact, mode set, short tail left unconsumed; "
             "L3' (thorough) the real next() over WHOLE 9-byte streams with symbolic message positions against parser contract models. The composition to arbitrarily long streams is the induction over stream position "
             "(paper argument in DESIGN 2/C01). Bounds: payload <= 5 B, tail <= 8 B, garbage <= 4 B per step.",
        note=TB + "payload bytes beyond 5 are one Vec::from copy (outside); reading through LowMarkBufReader is C04; logging off (log = None).",
        technique="bounded model checking of the real code (Kani/CBMC): shape-enumerated accept/reject lemmas + inductive iterator step"),
    "jobs": {"quick": 8, "thorough": 5},
    "seed_extra": [("c01_acc_", 1, 40)],
    "inject": [("src/dlt/mod.rs", "dlt_frame.rs"), ("src/utils/dltmessageiterator.rs", "dlt_iter.rs"), ("src/utils/dltmessageiterator.rs", "dlt_iter_abs.rs")],
    "functions": ["dlt::parse_dlt_with_storage_header", "dlt::parse_dlt_with_serial_header", "DltMessage::from_headers", "DltStorageHeader::{from_buf,reception_time_us}",
                  "DltStandardHeader::{from_buf,std_ext_header_size,ecu,timestamp_dms}", "DltExtendedHeader::from_buf", "is_storage_header_pattern", "is_serial_header_pattern",
                  "utils::DltMessageIterator::next over &[u8]"],
    "bounds": "payload <= 5 B, tail <= 8 B, 16 header shapes x 2 framings; reject/any-buffer lemmas: buffers <= 40 B; iterator: one message per step from an arbitrary state, garbage <= 3 B, tail <= 3 B",
    "stubs": [FMT, "L3' instances only (c01_abs_*): dlt::parse_dlt_with_storage_header / parse_dlt_with_serial_header -> contract models (Ok iff a message of the framing starts at offset 0 and fits, "
              "NotEnoughData below the minimal size, else InvalidData) - this is what L1/L2 establish about the real parsers on marker-clean input"],
    "outside": ["payload content beyond 5 bytes (one Vec::from copy)", "reading through LowMarkBufReader (C04)", "logging (log = None)",
                "composition of the step lemmas over a whole stream (induction on paper)"],
    "assumptions": ["neither frame marker occurs anywhere except at message starts (the property's precondition)"],
    "instances": ACC + IT + ABS + [
        inst(F, "c01_from_headers_fields", Q, "all 256 header-type bytes, 22 symbolic additional-header bytes", "L1c field extraction: ECU / timestamp / extended header from the right offsets for every flag combination", covers=2, timeout=1800),
        inst(F, "c01_reject_storage_40", Q, "any buffer <= 40 B not starting with the storage marker", "L2 reject: InvalidData (>= 20 B) / NotEnoughData, never Ok", covers=2, timeout=2400, cost=60),
        inst(F, "c01_reject_serial_40", Q, "any buffer <= 40 B not starting with the serial marker", "L2 reject: InvalidData (>= 8 B) / NotEnoughData, never Ok", covers=2, timeout=2400, cost=60),
        inst(F, "c03_u1_storage_any_24", Q, "any buffer <= 24 B (marker or not), any len field / htyp", "L4 length arithmetic: no overflow, consumed <= len", covers=2, timeout=2400, cost=40),
        inst(F, "c03_u1_serial_any_24", Q, "any buffer <= 24 B (marker or not), any len field / htyp", "L4 length arithmetic: no overflow, consumed <= len", covers=2, timeout=2400, cost=40),
        inst(F, "c04_b2_view_storage_36", T, "any 36 B buffer starting with the marker, two views >= frame + 4", "L1b look-ahead locality", covers=2, timeout=3000, mem_gb=24, cost=200),
        inst(F, "c04_b2_view_serial_26", T, "any 26 B buffer starting with the marker, two views >= frame + 4", "L1b look-ahead locality", covers=2, timeout=2400, mem_gb=24, cost=100),
    ],
}
