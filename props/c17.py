from props.common import inst, Q, T

F = "ft"
TB = "rustc front end, kani-compiler MIR->goto translation, CBMC 6.11 + cadical; "
PROP = {
    "manifest": dict(
        text="PARTIAL (reassembly state machine only). The real FileTransfer::{add_flda,check_finished} with a symbolic file (1..6 bytes), package size 1..3 (=> 1..3 packages: last shorter, size 1, size = file) and a "
             "channel delivering k <= 4 (thorough 5) packages, each with an arbitrary package number and the genuine bytes or a resized slice (one loop = drop, duplicate, swap, resize, fault-free), optionally the end marker: "
             "T1 Complete => stored data == file at every index, announced size, all packages arrived in order; T2 genuine in-order delivery (with a tolerated duplicate) => Complete exactly at the last package; "
             "T3 same safety when the announcement is lost; T4 a dropped package => never Complete, also not at the end marker. NOT covered: recognition of FLST/FLDA/FLFI messages and the (ecu,lifecycle,serial) index "
             "(std HashMap, string decoding) hence interleaved concurrent transfers; check_auto_save / apply_command (file system): never-overwrite and directory confinement are NOT checked.",
        note=TB + "FileTransfer records constructed directly in the states process_msg creates them in (Started with announced values / MissingStart).",
        technique="bounded model checking of the real code (Kani/CBMC): symbolic file, symbolic fault-injecting delivery sequence"),
    "inject": [("src/plugins/file_transfer.rs", "ft.rs")],
    "kf_roles": ["c17_duplicate_package"],
    "functions": ["plugins::file_transfer::FileTransfer::add_flda", "FileTransfer::check_finished"],
    "bounds": "file <= 6 B, package size 1..3, <= 3 packages, <= 5 deliveries incl. faults, optional end marker",
    "stubs": [],
    "outside": ["FLST/FLDA/FLFI message recognition, argument decoding, transfers_idx (HashMap)", "interleaving with other transfers / unrelated messages",
                "check_auto_save, apply_command: file system effects, never-overwrite, directory confinement", "content corruption of a right-sized package (undetectable by the protocol)"],
    "assumptions": ["the announcement (if received) carries the genuine file size, package count and package size"],
    "instances": [
        inst(F, "c17_t1_announced_k3", Q, "3 deliveries", "T1 safety: Complete => data exact", covers=3, timeout=1800),
        inst(F, "c17_t1_announced_k4", Q, "4 deliveries", "T1 safety: Complete => data exact", covers=3, timeout=1800, cost=50),
        inst(F, "c17_t1_announced_nokeep_k4", Q, "4 deliveries, data not kept", "T1 safety on counters", covers=3, timeout=1800),
        inst(F, "c17_t3_missing_start_cap2_k3", Q, "announcement lost, 3 deliveries, reserved capacity 2 (reached and exceeded by the stored data)", "T3 safety without announcement; stored data == received payload across Vec growth", covers=3, timeout=1800),
        inst(F, "c17_t3_missing_start_k3", Q, "announcement lost, 3 deliveries", "T3 safety without announcement", covers=3, timeout=1800),
        inst(F, "c17_t2_in_order_completes", Q, "genuine in-order + <= 1 duplicate", "T2 progress: Complete exactly at the last package", covers=2, timeout=1800),
        inst(F, "c17_t4_dropped_package_never_complete", Q, "one package dropped", "T4 never Complete", covers=2, timeout=1800),
        inst(F, "c17_t2_witness_duplicate", Q, "2 packages, first duplicated", "witness of known finding", kf_witness="c17_duplicate_package"),
        inst(F, "c17_t1_announced_k5", T, "5 deliveries", "T1 safety: Complete => data exact", covers=3, timeout=3000, mem_gb=30, cost=100),
        inst(F, "c17_t3_missing_start_k4", T, "announcement lost, 4 deliveries", "T3 safety without announcement", covers=3, timeout=3000, mem_gb=30),
    ],
}
