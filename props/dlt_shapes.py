"""Shape tables for the frame-parser (C01) and write/parse (C02) harnesses; used by the registry and by bin/gen_shapes
(which writes the matching macro invocations into harness/dlt_frame.rs and harness/dlt_write.rs)."""
FLAGS = [e | w | s | t for t in (0, 16) for s in (0, 8) for w in (0, 4) for e in (0, 1)]
ALL = 29


def hdr_size(f):
    return 4 + (4 if f & 4 else 0) + (4 if f & 8 else 0) + (4 if f & 16 else 0) + (10 if f & 1 else 0)


def acc_name(storage, f, plen, tail, nxt, gap=0):
    return "c01_acc_%s_f%02x_p%d_t%d%s%s" % ("st" if storage else "se", f, plen, tail, "n" if nxt else "", "g%d" % gap if gap else "")


TAILS = [(0, False), (3, False), (5, False), (5, True), (8, False), (8, True)]
PLENS = [0, 1, 2, 5]


def accept_shapes():
    """-> list of (name, storage, flags, plen, tail, next, tier)"""
    quick = {(True, 0, 0, 0, False), (True, ALL, 2, 5, True), (False, ALL, 1, 8, False), (False, 5, 2, 5, True)}
    also = {(False, 0, 5, 3, False), (True, 17, 5, 8, True), (True, 12, 1, 3, False), (False, 24, 0, 0, False)}
    out = {}
    for storage in (True, False):
        for f in FLAGS:
            for (plen, tail, nxt) in ((2, 5, True), (0, 0, False)):
                out[(storage, f, plen, tail, nxt)] = "thorough"
        for f in (0, ALL):
            for plen in PLENS:
                for tail, nxt in TAILS:
                    out[(storage, f, plen, tail, nxt)] = "thorough"
    for k in also:
        out[k] = "thorough"
    for k in quick:
        out[k] = "quick"
    res = []
    for (storage, f, plen, tail, nxt), tier in sorted(out.items(), key=lambda kv: (not kv[0][0], kv[0][1:])):
        res.append((acc_name(storage, f, plen, tail, nxt), storage, f, plen, tail, nxt, tier, 0))
    # message + `gap` garbage bytes + next marker (gap 1..4): the look-ahead heuristic must not see the NEXT message's marker
    # as "a second marker inside this message" (added after seeded change seeded/C01: loop bound to_consume + 3)
    quick_gap = {(False, ALL, 2, 1), (True, 0, 0, 2)}  # storage (True, ALL, 2, 1) moved back to thorough: 630 s on the reference sandbox (quick command limit 900 s)
    #  # (serial, all optional parts, gap 1) added after seeded change C01-6
    for storage in (True, False):
        for f in (0, ALL):
            for plen in (0, 2):
                for gap in (1, 2, 3, 4):
                    tier = "quick" if (storage, f, plen, gap) in quick_gap else "thorough"
                    res.append((acc_name(storage, f, plen, gap + 4, True, gap), storage, f, plen, gap + 4, True, tier, gap))
    return res


def rt_name(f, plen, t):
    return "c02_rt_f%02x_p%d_t%d" % (f, plen, t)


def roundtrip_shapes():
    """-> list of (name, flags, plen, time_idx, tier). Only EXT and WTMS change what to_write emits, but WEID/WSID are part
    of the input message's htyp and are enumerated too."""
    quick = {(0, 0, 0), (ALL, 3, 1), (17, 1, 2), (1, 3, 3), (16, 0, 1), (12, 1, 0)}
    out = {}
    for f in FLAGS:
        for plen in (0, 1, 3):
            out[(f, plen, (f + plen) % 4)] = "thorough"
    for k in quick:
        out[k] = "quick"
    return [(rt_name(f, p, t), f, p, t, tier) for (f, p, t), tier in sorted(out.items())]
