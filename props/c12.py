from props.common import inst, Q, T
from props.c11 import REGEX_STUBS

F = "filter_set"
TB = "rustc front end, kani-compiler MIR->goto translation, CBMC 6.11 + cadical; "
QUICK = {(0, 0, 0), (1, 0, 0), (0, 1, 0), (1, 1, 1), (2, 1, 0), (1, 2, 0), (0, 0, 2)}
SHAPES = []
for np_ in range(3):
    for nn in range(3):
        for ne in range(3):
            nm = 1 if (np_ + nn + ne) % 2 == 0 else 0
            SHAPES.append(inst(F, "c12_set_p%dn%de%dm%d" % (np_, nn, ne, nm), Q if (np_, nn, ne) in QUICK else T,
                               "%d positive, %d negative, %d event, %d marker filters" % (np_, nn, ne, nm),
                               "kept <=> (no positive or some positive matches) and no negative matches and (no event or some event matches)",
                               covers=2, timeout=2400, cost=np_ + nn + ne, mem_gb=24))
SHAPES.append(inst(F, "c12_set_p0n0e0m2", T, "only 2 marker filters", "markers have no effect", covers=2, timeout=1200))

PROP = {
    "manifest": dict(
        text="PARTIAL (set matcher only). The real utils::remote_utils::match_filters over a FilterKindContainer with 0..2 filters of each of the kinds positive/negative/event and 0..1 markers "
             "(thorough: all 27 count shapes; quick: 7 covering shapes), each filter's verdict on the message an independent free boolean: kept <=> (no positive filter or some positive matches) and no negative matches "
             "and (no event filter or some event matches); markers without effect. NOT covered: filter_as_streams (takes a Receiver: kani-compiler crashes on std::sync::mpsc; > 40 min with a FIFO stub), hence the "
             "agreement of the two implementations, order preservation and the passed/filtered counters; the enabled pre-filtering in StreamContext::from (JSON).",
        note=TB + "filters are enabled single-criterion ECU filters (Filter::matches itself is C11); regex call targets stubbed (never executed).",
        technique="bounded model checking of the real code (Kani/CBMC): one query per concrete container shape, symbolic filter verdicts"),
    "jobs": {"quick": 7, "thorough": 3},
    "seed_extra": [("c12_set_", 1, 3)],
    "inject": [("src/filter/filter_impl.rs", "filter_set.rs")],
    "functions": ["utils::remote_utils::match_filters", "filter::Filter::matches (ECU-literal path)", "FilterKindContainer::{index,index_mut}"],
    "bounds": "<= 2 filters per kind (positive, negative, event), <= 2 markers; 1 message; all verdict combinations",
    "stubs": REGEX_STUBS,
    "outside": ["filter::functions::filter_as_streams and its counters/order (channel)", "disabled filters inside the container (pre-filtered by StreamContext::from, JSON)",
                "more than 2 filters per kind"],
    "assumptions": ["the container holds enabled filters only (established by StreamContext::from)"],
    "instances": SHAPES,
}
