"""Properties that the technique of this task (solver-based checking of the real code) cannot decide here.
An entry is dropped automatically by bin/mkmanifest as soon as props/cNN.py exists for the id."""

NOTES = ("Technique family: solver-based checking of the real code (Kani/CBMC bounded symbolic execution; one MIR->SMT encoder). "
         "Every claimed check is PARTIAL in the sense stated in its level_claimed.text: it decides the named units within the named bounds; "
         "everything else is listed under outside_claim in the evidence. Exit 2 = inconclusive (timeout/OOM/ICE/non-reproducing "
         "counter-example) and is never a pass. Genuine defects found and repaired are listed in known_findings.json (status fixed), "
         "those recorded but not repaired with status open (printed as KNOWN-FINDING).")

NOT_APPLICABLE = [
    {"property_id": "C06", "reason": "all anchored mechanisms (refresh before release, final publication, consumers) live inside "
     "parse_lifecycles_buffered_from_stream + evmap: kani-compiler crashes on std::sync::mpsc send/recv; with recv/evmap replaced by "
     "models the real loop (HashMap, HashSet, VecDeque) did not finish a 2-message stream in 40 min; one real evmap update+refresh+read > 15 min / 9 GB"},
    {"property_id": "C10", "reason": "buffer_sort_messages takes a Receiver and an evmap read handle and keeps its window state in a std HashMap captured by "
     "closures; with channel and table stubbed a 2-message run crashed CBMC (signal 11) after 35 min. Second attempt (harness/sort.rs + cut extract_sorter, kept unregistered): "
     "the function's body pasted verbatim with Receiver -> Vec, evmap -> constant table, HashMap/BTreeMap -> fixed-array association lists: 1 message decides in 175 s / 4.3 GB, "
     "2 messages end in CBMC 'VERIFICATION ERROR' above 50 GB (how many messages sit in the BinaryHeap depends on the data, so every push/pop moves 144-byte elements at symbolic "
     "positions); a 1-message stream plus the comparator (c10_sorted_msg_order, 0.5 s) do not decide the property, so nothing is claimed"},
    {"property_id": "C14", "reason": "whole-program property over clap parsing, files, six threads and channels; the selection logic is a closure in a spawned thread "
     "inside a 700-line function; Kani does not model threads; building blocks are covered by C01/C02/C09/C11/C12"},
    {"property_id": "C15", "reason": "websocket server, threads, JSON, file system, Instant: one 550-line function around WebSocket<T>; not encodable for CBMC"},
    {"property_id": "C16", "reason": "process_stream_new_msgs filters with rayon par_iter (thread pool: unsupported by Kani); window/search functions live in the "
     "binary, take a FileContext (hash maps, Instant::now, thread handles) and write to a WebSocket"},
    {"property_id": "C19", "reason": "decoding plugins are driven by FIBEX/JSON tables in hash maps and regex (kani-compiler ICE on regex/fancy_regex/encoding_rs); the driver needs a "
     "Receiver; anonymisation = nested std HashMaps (~2 min per operation under Kani) + format!, a pseudonym collision needs 1000 entries"},
    {"property_id": "C01", "reason": "being built in this round (harness not yet registered)"},
    {"property_id": "C02", "reason": "being built in this round (harness not yet registered)"},
    {"property_id": "C03", "reason": "being built in this round (harness not yet registered)"},
    {"property_id": "C04", "reason": "being built in this round (harness not yet registered)"},
    {"property_id": "C09", "reason": "being built in this round (harness not yet registered)"},
    {"property_id": "C11", "reason": "being built in this round (harness not yet registered)"},
    {"property_id": "C12", "reason": "being built in this round (harness not yet registered)"},
    {"property_id": "C13", "reason": "being built in this round (harness not yet registered)"},
    {"property_id": "C17", "reason": "being built in this round (harness not yet registered)"},
    {"property_id": "C18", "reason": "being built in this round (harness not yet registered)"},
]
