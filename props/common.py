def inst(file, fn, tiers, bounds, lemma, **kw):
    d = {"name": fn, "file": file, "fn": fn, "tiers": tiers, "bounds": bounds, "lemma": lemma, "covers": 0}
    d.update(kw)
    return d


Q = ("quick", "thorough")
T = ("thorough",)
LC_OWNER = "src/lifecycle/mod.rs"
SWV_STUB = "dlt::control_msgs::parse_ctrl_sw_version_payload -> arbitrary Option<String> (reaches regex/encoding_rs: kani-compiler ICE)"
