FILE = "c20_chain"
OWNER = "src/utils/seekablechain.rs"


def I(fn, tiers, bounds, lemma, **kw):
    d = {"name": fn, "file": FILE, "fn": fn, "tiers": tiers, "bounds": bounds, "lemma": lemma, "covers": 3}
    d.update(kw)
    return d


PROP = {
    "manifest": {'text': 'PARTIAL (volume chain only). Bounded model checking of the real SeekableChain::{new,read,seek} against a one-cursor reference over the concatenation: for ALL byte values, ALL splits into 1..4 volumes (incl. empty ones) of <= 8 bytes and ALL sequences of <= 3 (thorough 5) read(n<=4)/seek(Start|Current|End, any offset) operations the solver shows: no early EOF, bytes equal the concatenation, seek returns the position reads continue from, no panic; plus seek-then-drain and drain / seek back anywhere / drain again (state left by an earlier pass) deliver exactly the rest. NOT covered: unzip.rs extraction, confinement, glob matching (zip crate + file system: not encodable).', 'note': "rustc front end, kani-compiler MIR->goto translation, CBMC 6.11 + cadical, Kani's allocation/slice models; stubs and textual cuts listed in the evidence; volumes modelled as std::io::Cursor<&[u8]> (no I/O errors); clamped or file-style position beyond the end both accepted.", 'technique': 'bounded model checking of the real code (Kani/CBMC, SAT): differential harness vs reference cursor, symbolic data/splits/operation sequence'},
    "inject": [(OWNER, FILE + ".rs")],
    "functions": ["utils::seekablechain::SeekableChain::{new, read, seek, seek_abs}", "HasLength::len",
                  "std::io::Cursor<&[u8]> as the volume type"],
    "bounds": "<= 8 symbolic bytes split at symbolic points into 1..4 volumes (any may be empty); <= 5 operations, each an "
              "arbitrary read(n<=4) or seek(Start(any u64) | Current(any i64) | End(any i64))",
    "stubs": [],
    "outside": ["CloneableSeekableReader (Arc+Mutex)", "everything in unzip.rs: extraction, glob matching, enclosed_name "
                "confinement, content fidelity of extracted files", "I/O errors and short reads of the volume readers",
                "more than 4 volumes / more than 5 operations"],
    "assumptions": ["volumes are std::io::Cursor over byte slices (no I/O errors, size stable after new())",
                    "a seek beyond the end may report either the clamped or the requested position (both read as EOF)",
                    "a seek to a negative position may be refused or clamped to 0"],
    "instances": [
        I("c20_chain_v3_l6_k3", ("quick", "thorough"), "3 volumes, 6 B, 3 ops", "chain == concatenation under ops", cost=30),
        I("c20_chain_v1_l4_k3", ("quick", "thorough"), "1 volume, 4 B, 3 ops", "chain == concatenation under ops", cost=10),
        I("c20_chain_v2_l5_k4", ("quick", "thorough"), "2 volumes, 5 B, 4 ops", "chain == concatenation under ops", cost=40),
        I("c20_chain_drain_v3_l6", ("quick", "thorough"), "3 volumes, 6 B, seek + drain with read(4)", "drain delivers exactly the rest", cost=20, covers=1),
        I("c20_chain_two_pass_v3_l6", ("quick", "thorough"), "3 volumes, 6 B: drain, seek back anywhere, drain again", "second pass delivers exactly the rest", cost=30, covers=1),
        I("c20_chain_v3_l6_k5", ("quick", "thorough"), "3 volumes, 6 B, 5 ops", "chain == concatenation under ops", cost=300, timeout=3000),
        I("c20_chain_v4_l8_k4", ("quick", "thorough"), "4 volumes, 8 B, 4 ops", "chain == concatenation under ops", cost=300, timeout=3000),
    ],
}
