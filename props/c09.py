from props.common import inst, Q, T

F = "multi_it"
TB = "rustc front end, kani-compiler MIR->goto translation, CBMC 6.11 + cadical; "
def digits(sh, n):
    return [(sh // 3 ** i) % 3 for i in range(n)]


# shape instances: quick = a covering subset (every per-source count in every position class: first/middle/last empty, all empty,
# all full, mixed), thorough = all 3^N shapes
QUICK_CHAIN = {2: [0, 1, 5, 6, 8], 3: [0, 3, 11, 15, 19, 26], 4: [27 + 2, 80]}
QUICK_MERGE = {2: [0, 1, 4, 5, 8], 3: [0, 9, 13, 23, 26]}
SHAPES = []
for n in (2, 3, 4):
    for sh in range(3 ** n):
        tiers = Q if (sh in QUICK_CHAIN[n] or n <= 3) else T
        SHAPES.append(inst(F, "c09_chain%d_s%02d" % (n, sh), tiers, "%d sources with %s pending messages" % (n, digits(sh, n)),
                           "M1 chain == concatenation, consecutive indices", covers=1, timeout=1800, cost=n))
for n in (2, 3):
    for sh in range(3 ** n):
        tiers = Q if (sh in QUICK_MERGE[n] or n == 2) else T
        SHAPES.append(inst(F, "c09_merge%d_s%02d" % (n, sh), tiers, "%d sources with %s pending messages" % (n, digits(sh, n)),
                           "M3 merge step: min head returned, heap = other heads + next of same source", covers=1, timeout=1800, cost=10 * n, mem_gb=24))

PROP = {
    "manifest": dict(
        text="Chain end-to-end, merge as inductive step. Real SequentialMultiIterator::{new,next,new_or_single_it} over <= 4 boxed sources x <= 2 messages (any subset empty): output == concatenation, "
             "consecutive numbering from any start index. Real SortingMultiReaderIterator::{new,next} + MinHeapEntry ordering: from EVERY state with <= 3 live sources (each 0..2 pending messages, arbitrary "
             "reception times) one next() returns a head with the smallest reception time, numbers it, and leaves in the heap exactly the other heads plus the next message of the same source "
             "(nothing dropped/duplicated; refill from the right source). With std's BinaryHeap invariant this composes to exactly-once, per-source order, sorted output for sorted sources; "
             "two consecutive steps on 2 sources are checked directly.",
        note=TB + "std::collections::BinaryHeap executed as compiled (not re-verified); sources are closure iterators (a partially consumed source is a shorter source); > 3 live sources outside.",
        technique="bounded model checking of the real code (Kani/CBMC): end-to-end for the chain, inductive step for the heap merge"),
    "seed_extra": [("c09_chain", 2, 10), ("c09_merge", 1, 30)],
    "inject": [("src/utils/sorting_multi_readeriterator.rs", "multi_it.rs")],
    "functions": ["SequentialMultiIterator::{new,next,new_or_single_it}", "SortingMultiReaderIterator::{new,next,new_or_single_it}",
                  "MinHeapEntry::{cmp,partial_cmp,eq}", "std BinaryHeap::{push,pop,iter} as compiled"],
    "bounds": "chain: <= 4 sources x <= 2 messages; merge: one step from any state with <= 3 live sources x <= 2 pending messages; all u64 reception times, all start indices",
    "stubs": [],
    "outside": ["more than 3 live sources in the merge; more than 4 chained sources", "std BinaryHeap's own invariant (trusted)",
                "the file-backed sources (get_dlt_message_iterator) - see C01"],
    "assumptions": ["start index + number of messages does not overflow u32 (index arithmetic overflow after 2^32 messages is outside)"],
    "instances": [
        inst(F, "c09_chain_single_shortcut", Q, "1 source", "M1 documented single-source shortcut", covers=1),
        inst(F, "c09_heap_entry_order", Q, "3 entries, any times", "M2 heap order = reverse reception-time order, consistent with eq", covers=1),
        inst(F, "c09_merge_single_shortcut", Q, "1 source", "documented single-source shortcut", covers=0),
        inst(F, "c09_chain_nos2_s04", Q, "new_or_single_it with 2 sources [1,1]", "M1 via new_or_single_it: behaves like new() for >= 2 sources", covers=1, timeout=1800),
        inst(F, "c09_chain_nos2_s05", Q, "new_or_single_it with 2 sources [2,1]", "M1 via new_or_single_it", covers=1, timeout=1800),
        inst(F, "c09_chain_nos3_s13", Q, "new_or_single_it with 3 sources [1,1,1]", "M1 via new_or_single_it", covers=1, timeout=1800),
        inst(F, "c09_chain_nos2_s03", Q, "new_or_single_it with 2 sources [0,1]", "M1 via new_or_single_it", covers=1, timeout=1800),
        inst(F, "c09_chain_nos3_s21", Q, "new_or_single_it with 3 sources [0,1,2]", "M1 via new_or_single_it", covers=1, timeout=1800),
    ] + SHAPES,
}
