from props.common import inst, Q, T, LC_OWNER, SWV_STUB
from props.cuts import extract_lc_comparator

TB = "rustc front end, kani-compiler MIR->goto translation, CBMC 6.11 + cadical; "
TEXT_STUBS = ["encoding_rs::Encoding::decode_without_bom_handling -> (\"\", false)", "regex::Regex::replace_all -> haystack unchanged",
              "<dlt::RE_NEW_LINE as Deref>::deref -> dangling reference (never dereferenced: replace_all is stubbed)"]


def U(file, fn, tiers, bounds, lemma, **kw):
    kw.setdefault("timeout", 2400)
    return inst(file, fn, tiers, bounds, lemma, **kw)


PROP = {
    "manifest": dict(
        text="UNIT-WISE crash freedom; oracle = Kani's built-in checks (panic, unwrap/expect, slice/array bounds, arithmetic overflow with dev-profile semantics, division by zero, invalid pointers) on the real code, each unit "
             "driven with exactly the values the file-reading chain can hand it: U1 both frame parsers on arbitrary buffers <= 24 B (thorough 40 B) and one DltMessageIterator::next from each framing state on arbitrary short buffers; "
             "U2 the verbose/non-verbose argument iterator on arbitrary payloads <= 12 B (thorough 16); U3 the control-message payload parsers (unregister-context, connection-info, timezone, software-version length arithmetic; get-log-info for status 3, 4 (thorough) and unsupported status only - "
             "statuses 5..7 exceed 30 GB in CBMC because of the nested Vec/String drop glue) on arbitrary bytes; U4 Lifecycle::new/update/merge and the derived getters from any record satisfying the representation invariant x any message; "
             "U6 the lifecycle listing sort (strict weak order, 3 records). NOT covered (cannot be encoded: regex engines, chrono, FIBEX/JSON decoders, std HashMap, channels): the CAN-ASC/logcat/generic-log converters, "
             "header/payload text rendering, the plugins, EacStats, the time sorter, the detector main loop incl. its internal assert!, the FLST pre-allocation (U5, see DESIGN).",
        note=TB + "stubs for regex/encoding_rs call targets as listed; allocation failure out of scope (--no-malloc-may-fail is Kani's default).",
        technique="bounded model checking of the real code (Kani/CBMC): arbitrary-input harness per unit, built-in panic/overflow/bounds checks as oracle"),
    "jobs": {"quick": 8, "thorough": 6},
    "inject": [("src/dlt/mod.rs", "dlt_frame.rs"), ("src/utils/dltmessageiterator.rs", "dlt_iter.rs"), ("src/dlt/mod.rs", "dlt_args.rs"),
               ("src/dlt/mod.rs", "dlt_ctrl.rs"), (LC_OWNER, "lc.rs")],
    "cuts": [extract_lc_comparator],
    "functions": ["dlt::parse_dlt_with_storage_header", "dlt::parse_dlt_with_serial_header", "utils::DltMessageIterator::next", "dlt::DltMessageArgIterator::next",
                  "dlt::control_msgs::{parse_ctrl_log_info_payload, parse_ctrl_unregister_context_payload, parse_ctrl_connection_info_payload, parse_ctrl_timezone_payload, parse_ctrl_sw_version_payload}",
                  "lifecycle::Lifecycle::{new,update,merge,end_time,resume_time,resume_start_time,suspend_duration,is_slightly_overlapping}",
                  "sorting statements of lifecycle::get_sorted_lifecycles_as_vec"],
    "bounds": "per unit: parser buffers <= 40 B; iterator buffers <= 22 B (storage) / 10 B (serial); argument payloads <= 16 B; control payloads <= 20 B; lifecycle: one step from any invariant-satisfying record, payload <= 10 B; listing: 3 records",
    "stubs": ["alloc::fmt::format -> String::new()", SWV_STUB] + TEXT_STUBS,
    "outside": ["CAN-ASC / BLF / logcat / generic-log converters (regex, chrono)", "header_as_text_to_write, payload_as_text (core::fmt, itoa, regex, encoding_rs, serde_json)",
                "non-verbose / SOME-IP / CAN / Muniic / rewrite / anonymise / export plugins", "EacStats, buffer_sort_messages, parse_lifecycles_buffered_from_stream main loop incl. its internal assert!",
                "get-log-info responses with status 5..7 (trace status / descriptions): > 30 GB in CBMC also with a concrete announced count (probed at 8..16 B payloads); status 4 only in the thorough tier (22 GB)", "file-transfer FLST pre-allocation nr_packages * buffer_size (one real HashMap::insert did not finish in 25 min; by-reading expectation only, not a finding)",
                "the isolated-worker-process observation named in the property is not used"],
    "assumptions": ["get-log-info: announced application count <= 3 (symbolic-size pre-allocation costs CBMC ~20 GB; the count is a u16, so the real pre-allocation is <= 65535 entries)", "lifecycle representation invariant I (re-asserted after each step)", "reception times are what a storage header can carry"],
    "instances": [
        U("dlt_frame", "c03_u1_storage_any_24", Q, "any buffer <= 24 B", "U1 storage parser: no panic/overflow, consumed <= len", covers=2),
        U("dlt_frame", "c03_u1_serial_any_24", Q, "any buffer <= 24 B", "U1 serial parser: no panic/overflow, consumed <= len", covers=2),
        U("dlt_frame", "c03_u1_storage_any_40", T, "any buffer <= 40 B", "U1 storage parser", covers=2, timeout=3300, mem_gb=24),
        U("dlt_frame", "c03_u1_serial_any_40", T, "any buffer <= 40 B", "U1 serial parser", covers=2, timeout=3300, mem_gb=24),
        U("dlt_iter", "c03_u1_iter_any_serial_10", Q, "any buffer <= 10 B, serial detected", "U1 iterator next(): no panic, counters within input", covers=2, mem_gb=24,
          unwindset=[("Iterator>::next", 6)], cost=300),
        U("dlt_iter", "c03_u1_iter_any_storage_22", T, "any buffer <= 22 B, storage detected", "U1 iterator next(): no panic, counters within input", covers=2, mem_gb=30, timeout=3300,
          unwindset=[("Iterator>::next", 6)], cost=500),
        U("dlt_args", "c03_u2_arg_iter_any_12", Q, "arbitrary payload <= 12 B, verbose or not, both byte orders", "U2 argument iterator: slices inside payload, terminates", covers=2),
        U("dlt_args", "c03_u2_arg_iter_any_16", T, "arbitrary payload <= 16 B", "U2 argument iterator", covers=2, timeout=3000, mem_gb=24),
        U("dlt_ctrl", "c03_u3_log_info_s8_12", Q, "status 8 (unsupported), payload <= 12 B", "U3 get-log-info parser: unsupported status ignored", covers=2),
        U("dlt_ctrl", "c03_u3_log_info_s4_c1_13", T, "status 4 (log levels), 1 announced application, payload <= 13 B", "U3 get-log-info parser", covers=2, timeout=3300, mem_gb=40, cost=900),
        U("dlt_ctrl", "c03_u3_log_info_s3_12", T, "status 3 (ids only), payload <= 12 B, announced count <= 3", "U3 get-log-info parser", covers=2, timeout=3300, mem_gb=40, cost=900),
        U("dlt_ctrl", "c03_u3_fixed_payloads", Q, "arbitrary payload <= 16 B", "U3 unregister-context / connection-info / timezone / sw-version", covers=2),
        U("lc", "lc_update_step_pl6", Q, "any record with I x any message, payload <= 6 B", "U4 Lifecycle::update: no panic/overflow, I preserved", covers=4),
        U("lc", "lc_new_step", Q, "any message", "U4 Lifecycle::new", covers=2),
        U("lc", "lc_merge_step", Q, "2 arbitrary records with I", "U4 Lifecycle::merge", covers=2),
        U("lc", "lc_update_step_pl10", T, "any record with I x any message, payload <= 10 B", "U4 Lifecycle::update", covers=4, timeout=3000),
        U("lc", "lc_cmp_strict_weak_order", Q, "3 arbitrary records", "U6 listing comparator is a strict weak order (sort cannot panic on it)", covers=2),
        U("lc", "lc_listing_n3", Q, "3 arbitrary records in arbitrary input order", "U6 listing sort terminates, each element once", covers=3, cost=400),
    ],
}
