from props.common import inst, Q, T, LC_OWNER, SWV_STUB
from props.cuts import extract_lc_comparator

F = "lc"
PROP = {
    "manifest": {'text': 'PARTIAL (listing order and merge arithmetic). The real sorting statements of get_sorted_lifecycles_as_vec (source-extracted, see cuts) on 3 arbitrary records in arbitrary input order: each lifecycle listed once, a resumed lifecycle never before its origin, start-time order without resume links; the comparator/key is a strict weak order; Lifecycle::merge: counts add up, merged record invalidated, min/max/start exact. NOT covered: agreement of the published table with delivered messages (needs the detector main loop + evmap: out of reach) - the phantom-lifecycle class is not detected.', 'note': "rustc front end, kani-compiler MIR->goto translation, CBMC 6.11 + cadical, Kani's allocation/slice models; stubs and textual cuts listed in the evidence; resume links point to smaller ids (acyclic); std sort executed as compiled for n = 3.", 'technique': 'bounded model checking of the real code (Kani/CBMC): symbolic records through the extracted sorting code; algebraic order axioms'},
    "inject": [(LC_OWNER, "lc.rs")],
    "cuts": [extract_lc_comparator],
    "functions": ["the sorting statements of lifecycle::get_sorted_lifecycles_as_vec (source-extracted) incl. its comparator/key closure", "slice::sort_by_key, slice::rotate_left (std, as compiled)", "lifecycle::Lifecycle::merge", "Lifecycle::was_merged"],
    "bounds": "exact (loop-free code): 3 arbitrary records with distinct ids and acyclic resume links for the order axioms; 2 arbitrary records with I for merge",
    "stubs": [],
    "outside": ["every listed lifecycle referenced by a delivered message; counts equal to the delivered histogram; no merged lifecycle left published "
                "(all inside parse_lifecycles_buffered_from_stream + evmap: out of reach) - the 'phantom lifecycle after a late merge' class is NOT detected",
                "std's sort implementation itself"],
    "assumptions": ["a resume link points to a record with a smaller id (ids are handed out increasingly; links are set only at creation)"],
    "instances": [
        inst(F, "lc_cmp_strict_weak_order", Q, "3 arbitrary records", "listing comparator is a strict weak order (sort_by terminates, each element once, no panic)", covers=2),
        inst(F, "lc_listing_n3", Q, "3 arbitrary records in arbitrary input order", "listing: each lifecycle once, resumed never before origin, start-time order without resume links", covers=3),
        inst(F, "lc_merge_step", Q, "2 arbitrary records with I", "merge: counts add up, merged record invalidated and points to survivor, min/max/start", covers=2),
    ],
}
