from props.common import inst, Q, T, LC_OWNER, SWV_STUB
from props.cuts import extract_lc_comparator

F = "lc"
PROP = {
    "manifest": {'text': "STEP LEVEL. Clean power cycles as solver variables (boot time, per-boot delay, timestamps): K1 first message creates a record with start = boot+delay; K2 any further message of the same boot joins and start/end/count stay exact (inductive over the summary S(b)); K3/K4 the first message of the next boot never joins and the detector's merge guard is false for it - for ALL values (u32 timestamps, 64-bit times), except the recorded known finding (next boot's delay shorter than the previous one's by >= the off-time), which is excluded by role and re-confirmed by a witness harness on every run. NOT covered: the merge/confirm logic of the detector main loop; composition into whole traces is a paper induction.", 'note': "rustc front end, kani-compiler MIR->goto translation, CBMC 6.11 + cadical, Kani's allocation/slice models; stubs and textual cuts listed in the evidence; clean-trace model as in the property statement; one step, no loops in the code under test.", 'technique': 'bounded model checking of the real code (Kani/CBMC): inductive step lemmas over a symbolic trace summary'},
    "inject": [(LC_OWNER, "lc.rs")],
    "cuts": [extract_lc_comparator],
    "kf_roles": ["c08_next_boot_shorter_delay"],
    "functions": ["lifecycle::Lifecycle::new", "lifecycle::Lifecycle::update", "Lifecycle::end_time", "Lifecycle::is_slightly_overlapping",
                  "Lifecycle::is_resume", "DltMessage::{timestamp_us,is_ctrl_request,is_ctrl_response}"],
    "bounds": "one step (new / update) from the symbolic summary S(b) of a record after ANY number of messages of a boot; all u32 timestamps, "
              "boot times <= 8e15 us, delays <= 1e14 us, counts < 2^32 - 1; no loop in the code under test",
    "stubs": [SWV_STUB],
    "outside": ["merge/confirm/buffering logic of parse_lifecycles_buffered_from_stream (only its merge-guard input inequality, K4)",
                "pre-populated lifecycle tables", "messages without timestamp, control requests inside a clean boot",
                "composition of the step lemmas into whole traces is a paper induction over the stream (DESIGN §2 C08)"],
    "assumptions": ["clean trace model: reception = boot + timestamp*100us + per-boot delay; off-time >= 1 ms; every message of boot b+1 "
                    "received no earlier than every message of boot b", "records are per ECU and update() reads no shared state, so ECU interleaving needs no extra step"],
    "instances": [
        inst(F, "c08_k1_first_message", Q, "all boot/delay/timestamp values", "K1 first message creates record with start = boot+delay", covers=1),
        inst(F, "c08_k2_same_boot", Q, "all summaries S(b) x any further timestamp", "K2 same boot joins; start/end/count exact", covers=3),
        inst(F, "c08_k3_next_boot", Q, "all summaries S(b) x any first message of boot b+1", "K3 next boot never joins; K4 merge guard false", covers=2),
        inst(F, "c08_k3_witness_shorter_delay", Q, "region: delay' + off-time <= delay", "witness of known finding", kf_witness="c08_next_boot_shorter_delay"),
    ],
}
