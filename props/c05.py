from props.common import inst, Q, T, LC_OWNER, SWV_STUB
from props.cuts import extract_lc_comparator

F = "lc"
PROP = {
    "manifest": {'text': "PARTIAL (assignment only). One inductive step of the real Lifecycle::new / Lifecycle::update from an ARBITRARY record satisfying the representation invariant I and an ARBITRARY message (all header bits, extended header, payload <= 6 B, thorough 10 B): the solver shows every path sets msg.lifecycle to a non-zero id of a record with the message's ECU, counts are exact, I is preserved (so the step composes to histories of any length), no panic/overflow. NOT covered: exactly-once, order, queue/merge/flush logic of parse_lifecycles_buffered_from_stream - a change that drops or reorders a queued message is not detected.", 'note': "rustc front end, kani-compiler MIR->goto translation, CBMC 6.11 + cadical, Kani's allocation/slice models; stubs and textual cuts listed in the evidence; invariant I as stated in the evidence (re-asserted after the step); sw-version text decoder stubbed.", 'technique': 'bounded model checking of the real code (Kani/CBMC): inductive step lemma from an arbitrary invariant-satisfying state'},
    "inject": [(LC_OWNER, "lc.rs")],
    "cuts": [extract_lc_comparator],
    "functions": ["lifecycle::Lifecycle::new", "lifecycle::Lifecycle::update", "DltMessage::into_iter / DltMessageArgIterator::next (sw-version path)"],
    "bounds": "ONE update/new step from an arbitrary record satisfying the representation invariant I (re-asserted after the step, so it "
              "covers histories of any length) x arbitrary message: any header bits, optional extended header with any type byte / noar, payload <= 10 B",
    "stubs": [SWV_STUB],
    "outside": ["exactly-once and order of forwarding, the queue/merge/flush logic of parse_lifecycles_buffered_from_stream (channel + evmap + "
                "std HashMap: out of reach, DESIGN §3) - a change that drops or reorders a queued message is NOT detected by this check",
                "wrap-around of the lifecycle id counter after 2^32 lifecycles", "more than 2^32-1 messages per lifecycle"],
    "assumptions": ["invariant I: id != 0, 1 <= nr_msgs, nr_control_req_msgs <= nr_msgs, min_ts <= max_ts <= u32::MAX*100, "
                    "start_time <= last_reception_time <= u32::MAX*1e6+u32::MAX", "reception times are what a storage header can carry (u32 s, u32 us)"],
    "instances": [
        inst(F, "lc_update_step_pl6", Q, "any record with I x any message, payload <= 6 B", "update assigns msg.lifecycle on every path; ecu/id preserved; I preserved", covers=4, timeout=1500),
        inst(F, "lc_new_step", Q, "any message", "new assigns msg.lifecycle = fresh id != 0, ecu = msg.ecu; I established", covers=2),
        inst(F, "lc_update_step_pl10", T, "any record with I x any message, payload <= 10 B", "as pl6 with longer payloads", covers=4, timeout=3000),
    ],
}
