#!/usr/bin/env python3
"""
vrun — runner for the solver-based checks of /verif (see DESIGN.md §1).

For one property:
  1. rsync /repo (current working tree) into a private scratch directory under /var/tmp
  2. inject the property's Kani harness files as child modules of the modules under test
     (`#[cfg(kani)] #[path=...] mod verif_kani_<x>;` appended in the scratch copy only) and apply the
     registered textual cuts (constant scaling, source-extracted kernels)
  3. build once with kani-compiler, then run every harness instance of the tier as its own
     `cargo kani --harness <h> --exact` job (own copy of the target dir, own memory limit, own timeout)
  4. classify each job from the solver's verdict: PASS (SUCCESSFUL + unwinding assertions + every
     cover witness satisfied), FAIL (a property check failed), INCONCLUSIVE (timeout / OOM / crash /
     unwinding assertion / unsatisfied cover)
  5. FAIL -> Kani concrete playback -> native replay of the harness body with the real (unstubbed)
     functions; only what reproduces natively is reported as VIOLATION (or KNOWN-FINDING if the
     harness is the witness of an open entry of known_findings.json)
  6. write /verif/evidence/<id>.json, remove the scratch directory

Exit status: 0 = everything explored held, 1 = VIOLATION, 2 = inconclusive / broken check.
"""
import atexit
import json
import os
import re
import resource
import shutil
import signal
import subprocess
import sys
import threading
import time
from concurrent.futures import ThreadPoolExecutor

VERIF = os.path.dirname(os.path.dirname(os.path.abspath(__file__)))
REPO = os.environ.get("VERIF_REPO", "/repo")
SCRATCH_BASE = os.environ.get("VERIF_SCRATCH", "/var/tmp")

ENV = dict(os.environ)
ENV["CARGO_NET_OFFLINE"] = "true"
ENV.pop("RUSTFLAGS", None)
ENV.pop("CARGO_TARGET_DIR", None)

_scratch_dirs = []
_children = set()
_children_lock = threading.Lock()


def log(*a):
    print(*a, flush=True)


def _cleanup():
    with _children_lock:
        for p in list(_children):
            try:
                os.killpg(p.pid, signal.SIGKILL)
            except Exception:
                pass
    if os.environ.get("VERIF_KEEP"):
        return
    for d in _scratch_dirs:
        shutil.rmtree(d, ignore_errors=True)


def _sig(signum, frame):
    _cleanup()
    os._exit(2)


atexit.register(_cleanup)
signal.signal(signal.SIGTERM, _sig)
signal.signal(signal.SIGINT, _sig)


def run_cmd(cmd, cwd, logfile, timeout, mem_gb=None, env=None):
    """Run cmd in its own process group; returns (rc or None on timeout, wall seconds, max_rss_kb)."""
    def pre():
        os.setsid()
        if mem_gb:
            lim = int(mem_gb * 1024 ** 3)
            resource.setrlimit(resource.RLIMIT_AS, (lim, lim))
    t0 = time.time()
    timef = logfile + ".time"
    full = ["/usr/bin/time", "-f", "%M", "-o", timef] + cmd
    with open(logfile, "w") as lf:
        p = subprocess.Popen(full, cwd=cwd, stdout=lf, stderr=subprocess.STDOUT, env=env or ENV,
                             preexec_fn=pre)
        with _children_lock:
            _children.add(p)
        try:
            rc = p.wait(timeout=timeout)
        except subprocess.TimeoutExpired:
            try:
                os.killpg(p.pid, signal.SIGKILL)
            except Exception:
                pass
            p.wait()
            rc = None
        finally:
            with _children_lock:
                _children.discard(p)
    rss = 0
    try:
        rss = int(open(timef).read().strip().splitlines()[-1])
    except Exception:
        pass
    return rc, time.time() - t0, rss


# --------------------------------------------------------------------------------------------
# scratch copy, injection, cuts
# --------------------------------------------------------------------------------------------

class Inconclusive(Exception):
    pass


def make_scratch(prop_id):
    d = os.path.join(SCRATCH_BASE, "adlt-verif.%d.%s" % (os.getpid(), prop_id))
    shutil.rmtree(d, ignore_errors=True)
    os.makedirs(d)
    _scratch_dirs.append(d)
    src = os.path.join(d, "src")
    subprocess.check_call(["rsync", "-a", "--exclude", "/target", "--exclude", "/.git",
                           "--exclude", "/fuzz", REPO + "/", src + "/"])
    return d, src


def load_known_findings():
    p = os.path.join(VERIF, "known_findings.json")
    if not os.path.exists(p):
        return []
    return json.load(open(p)).get("findings", [])


def kf_module_text(all_roles):
    """Rust module with one bool const per known-finding role: true iff an OPEN entry lists it."""
    open_roles = {f["role"] for f in load_known_findings() if f.get("status") == "open"}
    lines = ["#[allow(dead_code)]", "pub(crate) mod kf {"]
    for r in sorted(all_roles):
        lines.append("    pub const %s: bool = %s;" % (r.upper(), "true" if r in open_roles else "false"))
    lines.append("}")
    return "\n".join(lines) + "\n", open_roles


RE_MACRO_HARNESS = re.compile(r"^\w+!\((c\d\d_\w+),.*\);\s*$")


def inject(src, prop, all_roles, selected=None):
    """Copy harness files next to the module under test and declare them as child modules.
    Macro-generated shape harnesses (`xyz_h!(c09_chain3_s05, ...);` lines) that are not selected are left out:
    kani-compiler generates code for every harness in the crate, whether it is run or not."""
    kf_text, open_roles = kf_module_text(all_roles)
    support = open(os.path.join(VERIF, "harness", "support.rs")).read() \
        if os.path.exists(os.path.join(VERIF, "harness", "support.rs")) else ""
    for owner, hfile in prop["inject"]:
        owner_path = os.path.join(src, owner)
        if not os.path.exists(owner_path):
            raise Inconclusive("module under test not found: %s" % owner)
        modname = "verif_kani_" + os.path.splitext(os.path.basename(hfile))[0]
        dst = os.path.join(os.path.dirname(owner_path), modname + ".rs")
        text = open(os.path.join(VERIF, "harness", hfile)).read()
        if selected is not None:
            keep = []
            for line in text.split("\n"):
                m = RE_MACRO_HARNESS.match(line)
                keep.append("" if (m and m.group(1) not in selected) else line)
            text = "\n".join(keep)
        # generated parts go to the END so that line numbers of the harness stay those of /verif/harness
        text += "\n// ---- generated by vrun ----\n" + kf_text + support
        open(dst, "w").write(text)
        with open(owner_path, "a") as f:
            f.write('\n#[cfg(kani)]\n#[path = "%s"]\nmod %s;\n' % (dst, modname))
    return open_roles


def apply_cuts(src, prop, tier):
    applied = []
    for cut in prop.get("cuts", []):
        desc = cut(src, tier)  # raises Inconclusive if the anchor text is gone
        applied.append(desc)
    return applied


# --------------------------------------------------------------------------------------------
# cargo kani jobs
# --------------------------------------------------------------------------------------------

KANI_BASE = ["cargo", "kani", "--lib", "-Z", "stubbing", "-Z", "unstable-options"]


def build_once(src, t0dir, logdir, harness_names):
    cmd = KANI_BASE + ["--target-dir", t0dir, "--only-codegen", "--output-format", "terse"]
    lf = os.path.join(logdir, "build.log")
    rc, wall, _ = run_cmd(cmd, src, lf, timeout=1500, mem_gb=None)
    txt = open(lf, errors="replace").read()
    if rc != 0:
        tail = "\n".join(txt.splitlines()[-40:])
        raise Inconclusive("kani build failed (rc=%s):\n%s" % (rc, tail))
    return wall


RE_FAILED_N = re.compile(r"\*\* (\d+) of (\d+) failed(?: \((.*?)\))?")
RE_COVER = re.compile(r"\*\* (\d+) of (\d+) cover properties satisfied")
RE_VTIME = re.compile(r"Verification Time: ([0-9.]+)s")


def parse_kani_log(txt):
    r = {"status": None, "checks": 0, "failed": 0, "failed_checks": [], "cover_sat": 0, "cover_total": 0,
         "vtime": None, "undetermined": False}
    m = RE_FAILED_N.search(txt)
    if m:
        r["failed"] = int(m.group(1))
        r["checks"] = int(m.group(2))
        if m.group(3) and "undetermined" in m.group(3):
            r["undetermined"] = True
    m = RE_COVER.search(txt)
    if m:
        r["cover_sat"] = int(m.group(1))
        r["cover_total"] = int(m.group(2))
    m = RE_VTIME.search(txt)
    if m:
        r["vtime"] = float(m.group(1))
    # failed checks: "Failed Checks: <desc>\n File: "<f>", line N, in <fn>"
    lines = txt.splitlines()
    for i, l in enumerate(lines):
        if l.startswith("Failed Checks:"):
            desc = l[len("Failed Checks:"):].strip()
            loc = lines[i + 1].strip() if i + 1 < len(lines) and lines[i + 1].strip().startswith("File:") else ""
            r["failed_checks"].append({"desc": desc, "loc": loc})
    if "VERIFICATION:- SUCCESSFUL" in txt:
        r["status"] = "SUCCESSFUL"
    elif "VERIFICATION:- FAILED" in txt:
        r["status"] = "FAILED"
    return r


def classify(parsed, rc, expect_cover_min):
    """-> (verdict, reason). verdict in PASS / FAIL / INCONCLUSIVE"""
    if rc is None:
        return "INCONCLUSIVE", "timeout"
    st = parsed["status"]
    if st is None:
        return "INCONCLUSIVE", "no verdict from CBMC (crash / out of memory / compiler error), rc=%s" % rc
    if st == "SUCCESSFUL":
        if parsed["cover_total"] < expect_cover_min:
            return "INCONCLUSIVE", "harness has %d cover witnesses, %d required" % (parsed["cover_total"], expect_cover_min)
        if parsed["cover_sat"] != parsed["cover_total"]:
            return "INCONCLUSIVE", "vacuity: only %d of %d cover witnesses satisfied" % (parsed["cover_sat"], parsed["cover_total"])
        if parsed["checks"] == 0:
            return "INCONCLUSIVE", "no checks reported"
        return "PASS", ""
    # FAILED
    real = [c for c in parsed["failed_checks"] if not is_bound_failure(c["desc"])]
    if not parsed["failed_checks"]:
        return "INCONCLUSIVE", "FAILED without a failed property (undetermined / CBMC error)"
    if not real:
        return "INCONCLUSIVE", "unwinding assertion failed: bound too small (%s)" % parsed["failed_checks"][0]["desc"]
    return "FAIL", "; ".join("%s [%s]" % (c["desc"], c["loc"]) for c in real[:4])


def is_bound_failure(desc):
    d = desc.lower()
    return ("unwinding assertion" in d or "unsupported" in d and "construct" in d
            or "is not currently supported by kani" in d)


def resolve_unwindset(t0dir, inst):
    """inst["unwindset"] = [(substring of the loop's function name, bound), ...] -> ["--unwindset", "id:n,id:n"].
    Loop ids contain a per-build hash, so they are read from the goto binary of THIS build (cbmc --show-loops)."""
    spec = inst.get("unwindset")
    if not spec:
        return []
    cands = []
    for root, _dirs, files in os.walk(os.path.join(t0dir, "kani")):
        for f in files:
            if f.endswith(inst["fn"] + ".out"):
                cands.append(os.path.join(root, f))
    if not cands:
        raise Inconclusive("goto binary for %s not found (needed for the per-loop unwind bound)" % inst["fn"])
    out = subprocess.run(["cbmc", "--show-loops", sorted(cands)[0]], stdout=subprocess.PIPE, stderr=subprocess.DEVNULL, text=True).stdout
    pairs = []
    loops = re.findall(r"^Loop (\S+):\n\s+file (.*?) function (.*)$", out, re.M)
    for sub, bound in spec:
        hit = [lid for lid, _f, fn in loops if sub in fn]
        if not hit:
            raise Inconclusive("no loop in a function matching %r found in %s (code refactored?)" % (sub, inst["fn"]))
        pairs += ["%s:%d" % (lid, bound) for lid in hit]
    return ["--unwindset", ",".join(pairs)]


def run_instance(src, t0dir, workdir, inst, prop, extra_args=None, tag=""):
    """One cargo-kani job for one harness instance. Returns result dict."""
    name = inst["name"]
    try:
        inst["cbmc_args"] = (inst.get("cbmc_args_base") or []) + resolve_unwindset(t0dir, inst)
    except Inconclusive as e:
        return {"name": name, "harness": inst["fq"], "verdict": "INCONCLUSIVE", "reason": str(e), "wall_s": 0, "solver_s": None, "checks": 0,
                "cover": "0/0", "peak_rss_kb": 0, "bounds": inst.get("bounds", ""), "lemma": inst.get("lemma", ""), "log_tail": ""}
    tdir = os.path.join(workdir, "t_" + name + tag)
    subprocess.check_call(["cp", "-a", t0dir, tdir])
    fq = inst["fq"]
    cmd = KANI_BASE + ["--target-dir", tdir, "--harness", fq, "--exact", "--output-format", "terse"]
    if extra_args:
        cmd += extra_args
    if inst.get("cbmc_args"):
        cmd += ["--cbmc-args"] + inst["cbmc_args"]
    lf = os.path.join(workdir, "logs", name + tag + ".log")
    rc, wall, rss = run_cmd(cmd, src, lf, timeout=inst.get("timeout", 900), mem_gb=inst.get("mem_gb", 20))
    txt = open(lf, errors="replace").read()
    shutil.rmtree(tdir, ignore_errors=True)
    parsed = parse_kani_log(txt)
    verdict, reason = classify(parsed, rc, inst.get("covers", 0))
    res = {"name": name, "harness": fq, "verdict": verdict, "reason": reason, "wall_s": round(wall, 1),
           "solver_s": parsed["vtime"], "checks": parsed["checks"], "cover": "%d/%d" % (parsed["cover_sat"], parsed["cover_total"]),
           "peak_rss_kb": rss, "bounds": inst.get("bounds", ""), "lemma": inst.get("lemma", ""),
           "log_tail": "" if verdict == "PASS" else "\n".join(txt.splitlines()[-25:])}
    return res


# --------------------------------------------------------------------------------------------
# native replay of a counter-example (Kani concrete playback)
# --------------------------------------------------------------------------------------------

RE_PLAYBACK = re.compile(r"(#\[test\]\s*\n\s*fn (kani_concrete_playback_\w+)\(\)\s*\{.*?\n\})", re.S)


def extract_playback(src, t0dir, workdir, inst):
    """Re-run the failing harness with --concrete-playback=print and return (test_name, test_source)."""
    name = inst["name"]
    tdir = os.path.join(workdir, "t_pb_" + name)
    subprocess.check_call(["cp", "-a", t0dir, tdir])
    cmd = KANI_BASE + ["-Z", "concrete-playback", "--concrete-playback=print", "--target-dir", tdir,
                       "--harness", inst["fq"], "--exact", "--output-format", "terse"]
    if inst.get("cbmc_args"):
        cmd += ["--cbmc-args"] + inst["cbmc_args"]
    lf = os.path.join(workdir, "logs", name + ".playback.log")
    rc, wall, _ = run_cmd(cmd, src, lf, timeout=inst.get("timeout", 900) * 2, mem_gb=inst.get("mem_gb", 20))
    shutil.rmtree(tdir, ignore_errors=True)
    txt = open(lf, errors="replace").read()
    # one fenced block per failed check AND per satisfied cover witness; keep the failed checks only
    tests = []
    for blk in re.split(r"Concrete playback unit test for `[^`]*`:\s*\n```", txt)[1:]:
        blk = blk.split("```")[0]
        mc = re.search(r"/// Check for `(\w+)`: \"(.*?)\"\s*\n", blk, re.S)
        cls, desc = (mc.group(1), mc.group(2)) if mc else ("?", "?")
        if cls == "cover":
            continue
        m = RE_PLAYBACK.search(blk)
        if m and not is_bound_failure(desc):
            tests.append((m.group(2), m.group(1), desc))
    return tests


KANI_HOME = os.path.expanduser("~/.kani/kani-0.68.0")


def _harness_copy_path(src, prop, inst):
    owner, hfile = [x for x in prop["inject"] if os.path.splitext(os.path.basename(x[1]))[0] == inst["file"]][0]
    modname = "verif_kani_" + inst["file"]
    return os.path.join(os.path.dirname(os.path.join(src, owner)), modname + ".rs")


def txt_of(txt, tname):
    """the failure section of one test in cargo-test output"""
    m = re.search(r"---- \S*%s stdout ----\n(.*?)(?:\n---- |\nfailures:|\Z)" % re.escape(tname), txt, re.S)
    return m.group(1) if m else ""


def native_replay_batch(src, workdir, prop, tests, release, tag="batch"):
    """tests: list of (inst, test_name, test_src). Appends the generated unit tests to the harness copies and
    runs them natively (real, unstubbed functions) in ONE test build. This is what `cargo kani playback` does,
    spelled out so that the release-profile semantics (no overflow checks, no debug assertions, opt-level 3)
    can be selected as well: `cargo kani playback` itself hard-wires -Coverflow-checks=on.
    Returns {test_name: (status, message)} with status in reproduced / not_reproduced / error."""
    for inst, tname, tsrc in tests:
        dst = _harness_copy_path(src, prop, inst)
        text = open(dst).read()
        marker = "// ---- playback %s ----" % tname
        if marker not in text:
            open(dst, "a").write("\n" + marker + "\n" + tsrc + "\n")
    env = dict(ENV)
    pb = os.path.join(KANI_HOME, "playback")
    # -Aarithmetic_overflow: with a scaled-down constant (C04 cut) the repository's own unit tests contain constant expressions
    # that the deny-by-default lint rejects at compile time; they are compiled (same test binary) but never run here
    flags = (["-Coverflow-checks=off", "-Cdebug-assertions=off", "-Copt-level=3"] if release else ["-Coverflow-checks=on"]) + [
        "-Aarithmetic_overflow", "-Aunconditional_panic",
        "-Zunstable-options", "-Ztrim-diagnostic-paths=no", "-Zhuman_readable_cgu_names", "-Zalways-encode-mir", "--cfg=kani",
        "-Zcrate-attr=feature(register_tool)", "-Zcrate-attr=register_tool(kanitool)", "--force-warn", "unstable_features",
        "--sysroot", pb, "-L", pb + "/lib", "--extern", "force:kani",
        "--extern", "noprelude,nounused:std=" + pb + "/lib/libstd.rlib"]
    env["CARGO_ENCODED_RUSTFLAGS"] = "\x1f".join(flags)
    env["CARGO_TERM_PROGRESS_WHEN"] = "never"
    env["RUSTC"] = os.path.join(KANI_HOME, "bin", "kani-compiler")
    env["RUST_BACKTRACE"] = "0"
    env["CARGO_TARGET_DIR"] = os.path.join(workdir, "t_native_rel" if release else "t_native")
    cmd = [os.path.join(KANI_HOME, "toolchain", "bin", "cargo"), "test", "--lib", "--target", "x86_64-unknown-linux-gnu",
           "-Zhost-config", "-Ztarget-applies-to-host", '--config=host.rustflags=["--cfg=kani_host"]', "--",
           "--test-threads", "1", "kani_concrete_playback_"]
    lf = os.path.join(workdir, "logs", "native_%s_%s.log" % (tag, "rel" if release else "dev"))
    rc, wall, _ = run_cmd(cmd, src, lf, timeout=2400, env=env)
    txt = open(lf, errors="replace").read()
    out = {}
    for inst, tname, tsrc in tests:
        m = re.search(r"^test \S*%s \.\.\. (\w+)" % re.escape(tname), txt, re.M)
        if not m:
            why = "native replay build FAILED (could not compile the test binary)" if "could not compile" in txt else "generated test did not run"
            out[tname] = ("error", why + ": " + " | ".join(l for l in txt.splitlines() if l.startswith("error"))[:400])
        elif m.group(1) == "FAILED":
            pm = re.search(r"---- \S*%s stdout ----\n(.*?)(?:\nnote:|\n\n|\Z)" % re.escape(tname), txt, re.S)
            msg = pm.group(1).strip() if pm else "test failed"
            # the playback harness ran PAST the failing check (it asked for more nondeterministic values than the solver's
            # trace contains) or stopped before consuming all of them: the native run diverged from the counter-example,
            # which is NOT a reproduction
            diverged = "Not enough det vals found" in txt_of(txt, tname) or "still these concrete values left over" in txt_of(txt, tname)
            out[tname] = ("not_reproduced", "native run diverged from the solver trace (playback value count mismatch)") if diverged \
                else ("reproduced", msg[:600])
        else:
            out[tname] = ("not_reproduced", "")
    return out


# --------------------------------------------------------------------------------------------
# main driver for one property
# --------------------------------------------------------------------------------------------

def select_instances(prop, tier, seed, only):
    insts = []
    for inst in prop["instances"]:
        if only and inst["name"] not in only:
            continue
        tiers = inst.get("tiers", ("quick", "thorough"))
        if tier in tiers or only:
            insts.append(dict(inst))
    # VERIF_SEED: in the quick tier, `seed_extra` draws a few additional shape instances from the thorough-only pool, so that
    # repeated quick runs with different seeds sweep the enumerated shape space
    if tier == "quick" and not only:
        import random as _r
        for prefix, count, maxcost in prop.get("seed_extra", []):
            pool = [dict(i) for i in prop["instances"] if i["name"].startswith(prefix) and "quick" not in i.get("tiers", ())
                    and i.get("cost", 0) <= maxcost]
            pool.sort(key=lambda i: i["name"])
            for extra in _r.Random(seed * 7919 + len(prefix)).sample(pool, min(count, len(pool))):
                extra["seed_drawn"] = True
                insts.append(extra)
    # "alt" groups: pick one member per group by seed
    groups = {}
    out = []
    for inst in insts:
        g = inst.get("alt_group")
        if g and tier == "quick" and not only:
            groups.setdefault(g, []).append(inst)
        else:
            out.append(inst)
    for g, members in sorted(groups.items()):
        out.append(members[seed % len(members)])
    # permute order by seed (affects scheduling only)
    if seed:
        import random
        rnd = random.Random(seed)
        rnd.shuffle(out)
        out.sort(key=lambda i: -i.get("cost", 0))
    else:
        out.sort(key=lambda i: -i.get("cost", 0))
    return out


def only_skips_extra(only):
    return bool(only) and "extra" not in only


def native_run_tests(src, workdir, filt, tag):
    """build the scratch copy's unit tests natively (same flow as the playback replay, dev profile) and run those matching filt;
    returns the log text"""
    env = dict(ENV)
    pb = os.path.join(KANI_HOME, "playback")
    flags = ["-Coverflow-checks=on", "-Aarithmetic_overflow", "-Aunconditional_panic", "-Zunstable-options", "-Ztrim-diagnostic-paths=no", "-Zhuman_readable_cgu_names", "-Zalways-encode-mir",
             "--cfg=kani", "-Zcrate-attr=feature(register_tool)", "-Zcrate-attr=register_tool(kanitool)", "--force-warn", "unstable_features",
             "--sysroot", pb, "-L", pb + "/lib", "--extern", "force:kani", "--extern", "noprelude,nounused:std=" + pb + "/lib/libstd.rlib"]
    env["CARGO_ENCODED_RUSTFLAGS"] = "\x1f".join(flags)
    env["CARGO_TERM_PROGRESS_WHEN"] = "never"
    env["RUSTC"] = os.path.join(KANI_HOME, "bin", "kani-compiler")
    env["RUST_BACKTRACE"] = "0"
    env["CARGO_TARGET_DIR"] = os.path.join(workdir, "t_native")
    cmd = [os.path.join(KANI_HOME, "toolchain", "bin", "cargo"), "test", "--lib", "--target", "x86_64-unknown-linux-gnu",
           "-Zhost-config", "-Ztarget-applies-to-host", '--config=host.rustflags=["--cfg=kani_host"]', "--",
           "--test-threads", "1", "--nocapture", filt]
    lf = os.path.join(workdir, "logs", "native_%s.log" % tag)
    run_cmd(cmd, src, lf, timeout=2400, env=env)
    return open(lf, errors="replace").read()


def check_property(prop_id, prop, tier, seed, only=None, jobs=None):
    t_start = time.time()
    all_roles = set(prop.get("kf_roles_all", prop.get("kf_roles", [])))
    known = load_known_findings()
    status = {"violations": [], "known_seen": [], "inconclusive": [], "results": []}
    scratch = src = None
    cuts = []
    try:
        scratch, src = make_scratch(prop_id)
        os.makedirs(os.path.join(scratch, "logs"))
        insts = select_instances(prop, tier, seed, only)
        open_roles = inject(src, prop, all_roles, {i["fn"] for i in insts})
        cuts = apply_cuts(src, prop, tier)
        # witness harnesses run only for OPEN known findings
        insts = [i for i in insts if not i.get("kf_witness") or i["kf_witness"] in open_roles]
        if not insts and not (only and "extra" in only):
            raise Inconclusive("no harness instances selected")
        log("[%s] tier=%s seed=%d: %d harness instances, building with kani-compiler ..." % (prop_id, tier, seed, len(insts)))
        t0dir = os.path.join(scratch, "t0")
        bw = build_once(src, t0dir, os.path.join(scratch, "logs"), [i["fq"] for i in insts]) if insts else 0
        log("[%s] build %.0f s" % (prop_id, bw))
        if os.environ.get("VERIF_BUILD_ONLY"):
            raise Inconclusive("VERIF_BUILD_ONLY set: stopping after the build (scratch kept with VERIF_KEEP)")
        njobs = jobs or prop.get("jobs", {}).get(tier, 8)
        results = []
        with ThreadPoolExecutor(max_workers=njobs) as ex:
            futs = {ex.submit(run_instance, src, t0dir, scratch, i, prop): i for i in insts}
            from concurrent.futures import as_completed
            for fut in as_completed(list(futs)):
                inst = futs[fut]
                res = fut.result()
                res["inst"] = inst
                results.append(res)
                log("[%s]   %-44s %-12s %6.1fs solver=%ss checks=%d cover=%s rss=%dMB %s" % (
                    prop_id, res["name"], res["verdict"], res["wall_s"], res["solver_s"], res["checks"], res["cover"],
                    res["peak_rss_kb"] // 1024, res["reason"][:160]))
        status["results"] = results
        # ---- FAIL handling: playback + native replay (batched: one native build per profile)
        fails = []
        for res in results:
            inst = res["inst"]
            if res["verdict"] == "INCONCLUSIVE":
                status["inconclusive"].append(res)
            elif res["verdict"] == "FAIL":
                fails.append(res)
            elif inst.get("kf_witness"):
                log("[%s] note: witness harness %s for open known finding '%s' PASSED - the listed defect no longer shows; "
                    "the region is covered by this harness" % (prop_id, inst["name"], inst["kf_witness"]))
        if fails:
            for res in fails:
                log("[%s] %s FAILED: %s" % (prop_id, res["name"], res["reason"][:300]))
            log("[%s] extracting counter-examples (Kani concrete playback) and replaying natively ..." % prop_id)
            with ThreadPoolExecutor(max_workers=njobs) as ex:
                pbs = list(ex.map(lambda r: extract_playback(src, t0dir, scratch, r["inst"]), fails))
            tests = []
            for res, pb in zip(fails, pbs):
                if not pb:
                    res["verdict"] = "INCONCLUSIVE"
                    res["reason"] = "counter-example could not be extracted (no concrete playback): " + res["reason"]
                    status["inconclusive"].append(res)
                else:
                    res["replay"] = {"tests": [{"test_name": t[0], "test_src": t[1], "check": t[2]} for t in pb[:4]]}
                    for t in pb[:4]:
                        tests.append((res["inst"], t[0], t[1]))
            dev, rel = {}, {}
            if tests:
                dev = native_replay_batch(src, scratch, prop, tests, release=False)
                # release semantics only where a new violation may be reported (witnesses of open known findings: dev only)
                rtests = [t for t in tests if not (t[0].get("kf_witness") and dev[t[1]][0] == "reproduced")]
                rel = native_replay_batch(src, scratch, prop, rtests, release=True) if rtests else {}
                for t in tests:
                    rel.setdefault(t[1], ("skipped", ""))
            for res in fails:
                if "replay" not in res:
                    continue
                inst = res["inst"]
                repro = False
                for t in res["replay"]["tests"]:
                    d, dmsg = dev[t["test_name"]]
                    r, rmsg = rel[t["test_name"]]
                    t.update({"native_dev": d, "native_dev_msg": dmsg, "native_release": r, "native_release_msg": rmsg})
                    log("[%s]   %s [%s] native replay: dev profile=%s, release semantics=%s | %s" % (
                        prop_id, res["name"], t["check"][:60], d, r, (dmsg or rmsg).replace("\n", " ")[:200]))
                    repro = repro or d == "reproduced" or r == "reproduced"
                if repro:
                    role = inst.get("kf_witness")
                    if role and role in open_roles:
                        what = [f for f in known if f["role"] == role][0]["what"]
                        status["known_seen"].append({"role": role, "what": what, "harness": res["name"]})
                    else:
                        path = write_replay_file(prop_id, res, inst, tier, seed, cuts)
                        status["violations"].append({"harness": res["name"], "path": path, "reason": res["reason"]})
                else:
                    res["verdict"] = "INCONCLUSIVE"
                    res["reason"] = "solver counter-example did not reproduce natively: %s | %s" % (
                        res["reason"], "; ".join("%s: dev=%s rel=%s %s" % (t["check"][:40], t["native_dev"], t["native_release"], t["native_dev_msg"][-200:]) for t in res["replay"]["tests"]))
                    status["inconclusive"].append(res)
        if prop.get("extra") and not only_skips_extra(only):
            prop["extra"](prop_id, scratch, src, tier, seed, status)
    except Inconclusive as e:
        log("[%s] INCONCLUSIVE: %s" % (prop_id, e))
        status["inconclusive"].append({"name": "(setup)", "reason": str(e), "verdict": "INCONCLUSIVE"})
    finally:
        if scratch and not os.environ.get("VERIF_KEEP"):
            shutil.rmtree(scratch, ignore_errors=True)
    wall = time.time() - t_start
    write_evidence(prop_id, prop, tier, seed, status, cuts, wall)
    for k in status["known_seen"]:
        log("KNOWN-FINDING: property=%s %s (role=%s, witness harness %s)" % (prop_id, k["what"], k["role"], k["harness"]))
    for v in status["violations"]:
        log("VIOLATION property=%s replay=%s" % (prop_id, v["path"]))
    if status["violations"]:
        return 1
    if status["inconclusive"]:
        for r in status["inconclusive"]:
            log("[%s] inconclusive: %s: %s" % (prop_id, r.get("name"), r.get("reason")))
            if r.get("log_tail"):
                log("      | " + r["log_tail"].replace("\n", "\n      | "))
        log("[%s] INCONCLUSIVE (exit 2): not a pass, not a violation" % prop_id)
        return 2
    npass = sum(1 for r in status["results"] if r["verdict"] == "PASS")
    log("[%s] OK: %d/%d harness instances discharged by the solver, %.0f s" % (prop_id, npass, len(status["results"]), wall))
    return 0


def write_replay_file(prop_id, res, inst, tier, seed, cuts):
    d = os.path.join(VERIF, "replays")
    os.makedirs(d, exist_ok=True)
    path = os.path.join(d, "%s-%s.json" % (prop_id, res["name"]))
    doc = {"property": prop_id, "harness": res["harness"], "instance": res["name"], "file": inst["file"],
           "tier": tier, "seed": seed, "failed_checks": res["reason"], "bounds": inst.get("bounds", ""),
           "cuts": cuts, "tests": res["replay"]["tests"],
           "how_to_replay": "cd /verif && ./bin/vcheck --replay %s   (runs the generated unit tests natively, real functions, dev profile and "
                            "release semantics, against /repo's current tree)" % path}
    json.dump(doc, open(path, "w"), indent=1)
    return path


def write_evidence(prop_id, prop, tier, seed, status, cuts, wall):
    results = status["results"]
    samples = []
    for r in results:
        samples.append({"instance": r["name"], "harness": r["harness"], "lemma": r["lemma"], "bounds": r["bounds"],
                        "verdict": r["verdict"], "cbmc_checks": r["checks"], "cover_witnesses": r["cover"],
                        "solver_s": r["solver_s"], "wall_s": r["wall_s"], "peak_rss_kb": r["peak_rss_kb"],
                        **({"drawn_by_seed": True} if r["inst"].get("seed_drawn") else {}),
                        **({"reason": r["reason"]} if r["verdict"] != "PASS" else {})})
    nontrivial = sum(1 for r in results if r["verdict"] == "PASS" and r["checks"] > 0
                     and (r["inst"].get("covers", 0) == 0 or r["cover"].split("/")[0] == r["cover"].split("/")[1]))
    extra = status.get("extra_samples", [])
    ev = {
        "property_id": prop_id, "tier": tier, "seed": seed, "level": "model_checking",
        "coverage": {
            "evaluations": len(results) + status.get("extra_evaluations", 0),
            "distinct_nontrivial": nontrivial + status.get("extra_nontrivial", 0),
            "rule": "one evaluation = one solver query set (one Kani/CBMC run of one harness instance = real functions x one concrete shape, "
                    "all remaining values symbolic; or one SMT query of the MIR encoder). An instance counts as non-trivial iff CBMC reported "
                    "VERIFICATION SUCCESSFUL with unwinding assertions on, >0 checks, and every kani::cover! witness of the harness was SATISFIED "
                    "(so the asserted paths are reachable); instances are distinct by (harness, shape).",
            "samples": samples + extra,
            "exhaustive": False,
            "functions_encoded": prop.get("functions", []),
            "bounds": prop.get("bounds", ""),
            "stubs": prop.get("stubs", []),
            "cuts": cuts,
            "outside_claim": prop.get("outside", []),
            "solver": "CBMC 6.11.0 + cadical via Kani 0.68.0" + (prop.get("solver_extra") or ""),
            "solver_s_total": round(sum((r["solver_s"] or 0) for r in results) + status.get("extra_solver_s", 0), 2),
            "cbmc_checks_total": sum(r["checks"] for r in results),
            "known_findings_seen": status["known_seen"],
            "inconclusive": [{"instance": r.get("name"), "reason": r.get("reason")} for r in status["inconclusive"]],
        },
        "assumptions": prop.get("assumptions", []),
        "wall_s": round(wall, 1),
        "violations": len(status["violations"]),
    }
    # (seeded-change experiments set VERIF_EVIDENCE_DIR so that they do not overwrite the evidence of the unchanged tree)
    evdir = os.environ.get("VERIF_EVIDENCE_DIR") or os.path.join(VERIF, "evidence")
    os.makedirs(evdir, exist_ok=True)
    json.dump(ev, open(os.path.join(evdir, prop_id + ".json"), "w"), indent=1)


def replay_file(path, registry):
    doc = json.load(open(path))
    prop_id = doc["property"]
    prop = registry[prop_id]
    scratch, src = make_scratch(prop_id + ".replay")
    os.makedirs(os.path.join(scratch, "logs"))
    inject(src, prop, set(prop.get("kf_roles_all", prop.get("kf_roles", []))))
    apply_cuts(src, prop, doc.get("tier", "quick"))
    inst = [i for i in prop["instances"] if i["name"] == doc["instance"]][0]
    rc = 0
    tests = [(inst, t["test_name"], t["test_src"]) for t in doc["tests"]]
    for release in (False, True):
        out = native_replay_batch(src, scratch, prop, tests, release, tag="replay")
        for t in doc["tests"]:
            st, msg = out[t["test_name"]]
            log("replay %s [%s] (%s): %s %s" % (doc["instance"], t["check"][:60], "release semantics" if release else "dev profile", st, msg))
            if st == "reproduced":
                rc = 1
    if rc:
        log("VIOLATION property=%s replay=%s" % (prop_id, path))
    return rc
