#!/usr/bin/env python3
"""
mir2smt — a deliberately tiny MIR -> SMT-LIB2 (QF_BV semantics) encoder for loop-free integer functions (DESIGN §1.2).

Supported MIR subset: integer locals; reads of integer fields of the reference argument `((*_1).N: uK)`; tuple field reads
of checked-arithmetic results; IntToInt casts; Add/Sub/Mul (+WithOverflow), Div, Rem, Eq, Lt, Le; integer literals and
named integer constants; `assert(..) -> [success: bbN, ..]` terminators (collected as side conditions = "does not panic");
`goto`; a struct aggregate as return value. Anything else => Unsupported (the caller reports INCONCLUSIVE, never a pass).
"""
import re
import subprocess

W = {"u8": 8, "u16": 16, "u32": 32, "u64": 64, "usize": 64, "bool": 1}


class Unsupported(Exception):
    pass


def load_fn(mir, name_re):
    """name_re: e.g. r"::from_msg\(_1: &DltMessage\) -> DltStorageHeader" (method name, receiver type, return type)"""
    m = re.search(r"^fn [^\n]*" + name_re + r" \{\n(.*?)^\}\n", mir, re.S | re.M)
    if not m:
        raise Unsupported("function %s not found in MIR" % name_re)
    return m.group(1)


def consts(mir):
    c = {}
    for m in re.finditer(r"^const ([A-Za-z_0-9:]+): (u\d+|usize) = const (\d+)_(?:u\d+|usize);", mir, re.M):
        c[m.group(1).split("::")[-1]] = (int(m.group(3)), W[m.group(2)])
    return c


class Enc:
    def __init__(self, body, cst, prefix, field_inputs):
        self.body, self.cst, self.p, self.fields = body, cst, prefix, field_inputs
        self.ty = {}
        self.defs = []      # (name, width (0 = Bool), expr)
        self.side = []      # boolean exprs that must hold (no panic)
        self.val = {}
        self.ret_fields = {}
        self.ops = []
        for m in re.finditer(r"let (?:mut )?(_\d+): ([^;]+);", body):
            self.ty[m.group(1)] = m.group(2).strip()

    @staticmethod
    def bv(v, w):
        return "(_ bv%d %d)" % (v, w)

    def operand(self, s):
        s = s.strip()
        s = re.sub(r"^(copy|move) ", "", s)
        m = re.match(r"const (\d+)_(u\d+|usize)$", s)
        if m:
            return self.bv(int(m.group(1)), W[m.group(2)]), W[m.group(2)]
        m = re.match(r"const ([A-Za-z_0-9:]+)$", s)
        if m:
            key = m.group(1).split("::")[-1]
            if key not in self.cst:
                raise Unsupported("unknown constant " + s)
            v, w = self.cst[key]
            return self.bv(v, w), w
        m = re.match(r"\(\(\*_1\)\.(\d+): (u\d+)\)$", s)
        if m:
            if int(m.group(1)) not in self.fields:
                raise Unsupported("read of unmapped field " + s)
            return self.fields[int(m.group(1))], W[m.group(2)]
        m = re.match(r"\((_\d+)\.(\d): (u\d+|bool)\)$", s)
        if m:
            return self.val[(m.group(1), int(m.group(2)))], W[m.group(3)]
        if s in self.val:
            return self.val[s], W[self.ty[s]]
        raise Unsupported("unsupported operand: " + s)

    def define(self, local, sort_w, expr, sub=None):
        name = "%s%s%s" % (self.p, local, "" if sub is None else "_%d" % sub)
        self.defs.append((name, sort_w, expr))
        self.val[local if sub is None else (local, sub)] = name

    def stmt(self, line):
        lhs, rhs = [x.strip() for x in line.rstrip(";").split(" = ", 1)]
        m = re.match(r"(\w+)\((.*), (.*)\)$", rhs)
        if m and m.group(1) in ("AddWithOverflow", "MulWithOverflow", "SubWithOverflow"):
            (a, w), (b, _) = self.operand(m.group(2)), self.operand(m.group(3))
            op = {"Add": "bvadd", "Mul": "bvmul", "Sub": "bvsub"}[m.group(1)[:3]]
            wide = "(%s ((_ zero_extend %d) %s) ((_ zero_extend %d) %s))" % (op, w, a, w, b)
            self.define(lhs, w, "((_ extract %d 0) %s)" % (w - 1, wide), 0)
            ovf = "(not (= ((_ extract %d %d) %s) (_ bv0 %d)))" % (2 * w - 1, w, wide, w) if op != "bvsub" else "(bvult %s %s)" % (a, b)
            self.define(lhs, 0, ovf, 1)
            self.ops.append(m.group(1))
            return
        if m and m.group(1) in ("Div", "Rem", "Eq", "Add", "Sub", "Mul", "Lt", "Le"):
            (a, w), (b, _) = self.operand(m.group(2)), self.operand(m.group(3))
            if m.group(1) in ("Eq", "Lt", "Le"):
                self.define(lhs, 0, "(%s %s %s)" % ({"Eq": "=", "Lt": "bvult", "Le": "bvule"}[m.group(1)], a, b))
            else:
                self.define(lhs, w, "(%s %s %s)" % ({"Div": "bvudiv", "Rem": "bvurem", "Add": "bvadd", "Sub": "bvsub", "Mul": "bvmul"}[m.group(1)], a, b))
            self.ops.append(m.group(1))
            return
        m = re.match(r"(.*) as (u\d+|usize) \(IntToInt\)$", rhs)
        if m:
            a, w = self.operand(m.group(1))
            t = W[m.group(2)]
            e = a if t == w else ("((_ zero_extend %d) %s)" % (t - w, a) if t > w else "((_ extract %d 0) %s)" % (t - 1, a))
            self.define(lhs, t, e)
            self.ops.append("IntToInt")
            return
        m = re.match(r"\w+ \{ (.*) \}$", rhs)
        if m and lhs == "_0":
            for f in m.group(1).split(", "):
                k, v = f.split(": ")
                try:
                    self.ret_fields[k] = self.operand(v)[0]
                except (Unsupported, KeyError):
                    pass  # non-integer field carried through (DltChar4), irrelevant for the lemma
            return
        try:
            a, w = self.operand(rhs)
        except (Unsupported, KeyError):
            if re.search(r"DltChar4", self.ty.get(lhs, "")):
                return
            raise Unsupported("unsupported rvalue: " + line)
        self.define(lhs, w, a)

    def run(self):
        blocks = dict(re.findall(r"^    (bb\d+): \{\n(.*?)^    \}", self.body, re.S | re.M))
        cur = "bb0"
        seen = set()
        while True:
            if cur in seen or cur not in blocks:
                raise Unsupported("loop or unknown block in MIR: refuse")
            seen.add(cur)
            nxt = None
            for line in [l.strip() for l in blocks[cur].strip().split("\n")]:
                if line.startswith("assert("):
                    m = re.match(r"assert\((!?)(?:move |copy )?(.+?), \".*-> \[success: (bb\d+)", line)
                    if not m:
                        raise Unsupported("unsupported assert terminator: " + line)
                    c, _ = self.operand(m.group(2))
                    self.side.append("(not %s)" % c if m.group(1) else c)
                    nxt = m.group(3)
                elif line.startswith("goto -> "):
                    nxt = line.split("-> ")[1].rstrip(";")
                elif line == "return;":
                    return self
                elif " = " in line:
                    self.stmt(line)
                elif line.startswith(("StorageLive", "StorageDead", "nop", "FakeRead")) or line.startswith("//") or not line:
                    pass
                else:
                    raise Unsupported("unsupported MIR statement: " + line)
            if nxt is None:
                raise Unsupported("block %s without supported terminator" % cur)
            cur = nxt


def sort(w):
    return "Bool" if w == 0 else "(_ BitVec %d)" % w


def time_lemma_queries(mir):
    """-> dict name -> smt text, plus info. Lemma R4: for all secs:u32, micros < 10^6:
         from_msg(reception_time_us(secs, micros)) == (secs, micros), and no overflow / div-by-zero assert can fail."""
    cst = consts(mir)
    e1 = Enc(load_fn(mir, r"::reception_time_us\(_1: &DltStorageHeader\) -> u64"), cst, "rt", {0: "secs", 1: "micros"}).run()
    t = e1.val["_0"]
    e2 = Enc(load_fn(mir, r"::from_msg\(_1: &DltMessage\) -> DltStorageHeader"), cst, "fm", {1: t}).run()
    if "secs" not in e2.ret_fields or "micros" not in e2.ret_fields:
        raise Unsupported("from_msg: returned struct has no integer secs/micros fields in the MIR")
    decl = ["(set-logic ALL)", "(declare-const secs (_ BitVec 32))", "(declare-const micros (_ BitVec 32))"]
    defs = []
    for enc in (e1, e2):
        for name, w, expr in enc.defs:
            defs.append("(define-fun %s () %s %s)" % (name, sort(w), expr))
    ok = ["(= %s secs)" % e2.ret_fields["secs"], "(= %s micros)" % e2.ret_fields["micros"]] + e1.side + e2.side
    neg = "(assert (not (and %s)))" % " ".join(ok)
    q = {}
    q["r4_lemma"] = "\n".join(decl + ["(assert (bvult micros (_ bv1000000 32)))"] + defs + [neg, "(check-sat)"])
    # non-vacuity twin: with the precondition weakened to micros <= 10^6 the negated lemma must be satisfiable
    q["r4_witness_weakened_pre"] = "\n".join(decl + ["(assert (bvule micros (_ bv1000000 32)))"] + defs + [neg, "(check-sat)", "(get-value (secs micros))"])
    # side conditions alone, for ALL u32 inputs (no precondition): reception_time_us never overflows u64
    q["r4_no_overflow_all_inputs"] = "\n".join(decl + defs + ["(assert (not (and %s)))" % " ".join(e1.side + e2.side or ["true"]), "(check-sat)"])
    info = {"ops_encoded": sorted(set(e1.ops + e2.ops)), "side_conditions": len(e1.side) + len(e2.side),
            "outputs": {"t": t, "secs": e2.ret_fields["secs"], "micros": e2.ret_fields["micros"]}, "decl": decl, "defs": defs}
    return q, info


def eval_query(info, secs, micros):
    """encoding evaluated at a concrete input (translator validation)"""
    o = info["outputs"]
    return "\n".join(info["decl"] + info["defs"] + [
        "(assert (= secs (_ bv%d 32)))" % secs, "(assert (= micros (_ bv%d 32)))" % micros,
        "(check-sat)", "(get-value (%s %s %s))" % (o["t"], o["secs"], o["micros"])])


def run_solver(cmd, text, timeout):
    try:
        p = subprocess.run(cmd, input=text, stdout=subprocess.PIPE, stderr=subprocess.STDOUT, text=True, timeout=timeout)
        out = p.stdout
    except subprocess.TimeoutExpired:
        return "timeout", ""
    if "(error" in out:
        return "error", out
    first = out.strip().split("\n")[0].strip() if out.strip() else ""
    if first in ("sat", "unsat", "unknown"):
        return first, out
    return "error", out


def parse_values(out):
    vals = []
    for m in re.finditer(r"#x([0-9a-fA-F]+)|#b([01]+)|\(_ bv(\d+) \d+\)", out):
        if m.group(1):
            vals.append(int(m.group(1), 16))
        elif m.group(2):
            vals.append(int(m.group(2), 2))
        else:
            vals.append(int(m.group(3)))
    return vals


CVC5 = ["cvc5", "--lang", "smt2", "--produce-models", "--solve-bv-as-int=sum"]
Z3 = ["z3", "-in", "-smt2"]
