import importlib
import re
import os
import sys

VERIF = os.path.dirname(os.path.dirname(os.path.abspath(__file__)))
sys.path.insert(0, VERIF)


def owner_modpath(owner):
    p = owner
    assert p.startswith("src/")
    p = p[4:]
    if p.endswith(".rs"):
        p = p[:-3]
    if p.endswith("/mod"):
        p = p[:-4]
    if p == "lib":
        return ""
    return p.replace("/", "::")


def load():
    reg = {}
    pdir = os.path.join(VERIF, "props")
    for f in sorted(os.listdir(pdir)):
        if re.fullmatch(r"c\d\d\.py", f):
            m = importlib.import_module("props." + f[:-3])
            pid = f[:-3].upper()
            prop = m.PROP
            owners = {os.path.splitext(os.path.basename(h))[0]: o for o, h in prop["inject"]}
            for inst in prop["instances"]:
                mp = owner_modpath(owners[inst["file"]])
                inst["fq"] = (mp + "::" if mp else "") + "verif_kani_" + inst["file"] + "::" + inst["fn"]
            reg[pid] = prop
    roles = sorted({r for p in reg.values() for r in p.get('kf_roles', [])})
    for p in reg.values():
        p['kf_roles_all'] = roles
    return reg
