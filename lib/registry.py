import importlib
import os
import sys

VERIF = os.path.dirname(os.path.dirname(os.path.abspath(__file__)))
sys.path.insert(0, VERIF)


def owner_modpath(owner):
    p = owner
    assert p.startswith("src/")
    p = p[4:]
    if p.endswith(".rs"):
        p = p[:-3]
    if p.endswith("/mod"):
        p = p[:-4]
    if p == "lib":
        return ""
    return p.replace("/", "::")


def load():
    reg = {}
    pdir = os.path.join(VERIF, "props")
    for f in sorted(os.listdir(pdir)):
        if f.startswith("c") and f.endswith(".py"):
            m = importlib.import_module("props." + f[:-3])
            pid = f[:-3].upper()
            prop = m.PROP
            owners = {os.path.splitext(os.path.basename(h))[0]: o for o, h in prop["inject"]}
            for inst in prop["instances"]:
                mp = owner_modpath(owners[inst["file"]])
                inst["fq"] = (mp + "::" if mp else "") + "verif_kani_" + inst["file"] + "::" + inst["fn"]
            reg[pid] = prop
    return reg
