// harnesses for src/dlt (child module of crate::dlt => private access)
use super::*;
use crate::utils::DltMessageIterator;

pub fn fmt_stub(_args: std::fmt::Arguments<'_>) -> String {
    String::new()
}

/// accept lemma: a buffer that starts with a well-formed storage message of the given (concrete) shape,
/// followed by `tail` arbitrary bytes, no marker at any offset != 0 (and != mlen if next_is_msg)
fn accept_lemma<const N: usize>(flags: u8, plen: usize, tail: usize, next_is_msg: bool) {
    let mut data: [u8; N] = kani::any();
    let vers: u8 = kani::any();
    let htyp = (vers & 0xe0) | flags;
    let stdh = DltStandardHeader { htyp, mcnt: 0, len: 0 };
    let hdr = stdh.std_ext_header_size() as usize;
    let mlen = 16 + hdr + plen;
    assert!(mlen + tail == N);
    data[0] = b'D'; data[1] = b'L'; data[2] = b'T'; data[3] = 1;
    data[16] = htyp;
    data[18] = ((hdr + plen) >> 8) as u8;
    data[19] = ((hdr + plen) & 0xff) as u8;
    if next_is_msg {
        data[mlen] = b'D'; data[mlen + 1] = b'L'; data[mlen + 2] = b'T'; data[mlen + 3] = 1;
    }
    let mut i = 1;
    while i + 4 <= N {
        if !(next_is_msg && i == mlen) {
            kani::assume(!is_storage_header_pattern(&data[i..i + 4]));
        }
        i += 1;
    }
    let r = parse_dlt_with_storage_header(5, &data);
    assert!(r.is_ok());
    let (consumed, m) = r.unwrap();
    assert_eq!(consumed, mlen);
    assert_eq!(m.index, 5);
    assert_eq!(m.standard_header.htyp, htyp);
    assert_eq!(m.standard_header.mcnt, data[17]);
    assert_eq!(m.payload.len(), plen);
    let j: usize = kani::any();
    kani::assume(j < plen);
    assert_eq!(m.payload[j], data[16 + hdr + j]);
    assert_eq!(m.reception_time_us,
        u32::from_le_bytes([data[4], data[5], data[6], data[7]]) as u64 * 1_000_000
            + u32::from_le_bytes([data[8], data[9], data[10], data[11]]) as u64);
    assert_eq!(m.extended_header.is_some(), flags & 1 != 0);
    let ecu_off = if flags & 4 != 0 { 20 } else { 12 };
    assert!(m.ecu.as_buf()[0] == data[ecu_off] && m.ecu.as_buf()[3] == data[ecu_off + 3]);
    std::mem::forget(m);
}

#[kani::proof]
#[kani::unwind(48)]
#[kani::stub(alloc::fmt::format, fmt_stub)]
fn c01_accept_min_p2_t5() {
    accept_lemma::<27>(0x00, 2, 5, false);
}

#[kani::proof]
#[kani::unwind(48)]
#[kani::stub(alloc::fmt::format, fmt_stub)]
fn c01_accept_full_p2_t5_next() {
    accept_lemma::<{ 16 + 26 + 2 + 5 }>(0x1f, 2, 5, true);
}

/// reject lemma: buffer of symbolic length >= 20 without marker at 0 => InvalidData
#[kani::proof]
#[kani::unwind(34)]
#[kani::stub(alloc::fmt::format, fmt_stub)]
fn c01_reject_no_marker() {
    let data: [u8; 30] = kani::any();
    let len: usize = kani::any();
    kani::assume(len >= 20 && len <= 30);
    kani::assume(!is_storage_header_pattern(&data[0..4]));
    let r = parse_dlt_with_storage_header(5, &data[..len]);
    match &r {
        Err(e) => match e.kind() {
            ErrorKind::InvalidData(_) => {}
            _ => { assert!(false); }
        },
        Ok(_) => { assert!(false); }
    }
    std::mem::forget(r);
}

/// iterator step: [g garbage][min-size storage msg][t tail garbage]: counters and yield
#[kani::proof]
#[kani::unwind(30)]
#[kani::stub(alloc::fmt::format, fmt_stub)]
fn c01_iter_garbage_then_msg() {
    const G: usize = 2;
    const N: usize = G + 20 + 3;
    let mut data: [u8; N] = kani::any();
    data[G] = b'D'; data[G + 1] = b'L'; data[G + 2] = b'T'; data[G + 3] = 1;
    data[G + 16] = 0x20; data[G + 18] = 0; data[G + 19] = 4;
    let mut i = 0;
    while i + 4 <= N {
        if i != G {
            kani::assume(!is_storage_header_pattern(&data[i..i + 4]));
            kani::assume(!is_serial_header_pattern(&data[i..i + 4]));
        }
        i += 1;
    }
    let mut it = DltMessageIterator::new(7, &data[..]);
    let m = it.next();
    assert!(m.is_some());
    let m = m.unwrap();
    assert_eq!(m.index, 7);
    assert_eq!(it.bytes_skipped, G);
    assert_eq!(it.bytes_processed, G + 20);
    assert!(it.detected_storage_header);
    let m2 = it.next();
    assert!(m2.is_none());
    assert!(it.bytes_processed <= N);
    std::mem::forget(m);
}

// ---------- C02: write -> parse roundtrip, concrete shape, slice writer ------------
fn roundtrip_lemma(flags: u8, plen: usize) {
    let pl: [u8; 8] = kani::any();
    let vers: u8 = kani::any();
    let htyp = (vers & 0xe0) | flags;
    let has_ext = htyp & 1 != 0;
    let ext = if has_ext {
        Some(DltExtendedHeader {
            verb_mstp_mtin: kani::any(),
            noar: kani::any(),
            apid: DltChar4::from_buf(&kani::any::<[u8; 4]>()),
            ctid: DltChar4::from_buf(&kani::any::<[u8; 4]>()),
        })
    } else {
        None
    };
    let micros: u32 = kani::any();
    kani::assume(micros < 1_000_000);
    let secs: u32 = kani::any();
    let m = DltMessage {
        index: 3,
        reception_time_us: secs as u64 * 1_000_000 + micros as u64,
        ecu: DltChar4::from_buf(&kani::any::<[u8; 4]>()),
        timestamp_dms: if htyp & 0x10 != 0 { kani::any() } else { 0 },
        standard_header: DltStandardHeader { htyp, mcnt: kani::any(), len: kani::any() },
        extended_header: ext,
        payload: pl[..plen].to_vec(),
        payload_text: None,
        lifecycle: 0,
    };
    let mut out = [0u8; 64];
    let written = {
        let mut w: &mut [u8] = &mut out[..];
        m.to_write(&mut w).unwrap();
        64 - w.len()
    };
    let r = parse_dlt_with_storage_header(3, &out[..written]);
    assert!(r.is_ok());
    let (consumed, m2) = r.unwrap();
    assert_eq!(consumed, written);
    assert!(m2.ecu == m.ecu);
    assert_eq!(m2.reception_time_us, m.reception_time_us);
    assert_eq!(m2.timestamp_dms, m.timestamp_dms);
    assert_eq!(m2.standard_header.has_timestamp(), m.standard_header.has_timestamp());
    assert_eq!(m2.standard_header.mcnt, m.standard_header.mcnt);
    assert_eq!(m2.is_big_endian(), m.is_big_endian());
    assert!(m2.extended_header == m.extended_header);
    assert_eq!(m2.payload.len(), plen);
    let i: usize = kani::any();
    kani::assume(i < plen);
    assert_eq!(m2.payload[i], pl[i]);
    // normal form: writing m2 again gives identical bytes
    let mut out2 = [0u8; 64];
    let written2 = {
        let mut w: &mut [u8] = &mut out2[..];
        m2.to_write(&mut w).unwrap();
        64 - w.len()
    };
    assert_eq!(written2, written);
    let k: usize = kani::any();
    kani::assume(k < written);
    assert_eq!(out2[k], out[k]);
    std::mem::forget(m);
    std::mem::forget(m2);
}

#[kani::proof]
#[kani::unwind(70)]
#[kani::stub(alloc::fmt::format, fmt_stub)]
fn c02_roundtrip_full_p3() {
    roundtrip_lemma(0x1f, 3);
}
#[kani::proof]
#[kani::unwind(70)]
#[kani::stub(alloc::fmt::format, fmt_stub)]
fn c02_roundtrip_min_p0() {
    roundtrip_lemma(0x00, 0);
}

// ---------- C18: payload_from_args -> arg iterator (non-empty variable-length args) ------------
#[kani::proof]
#[kani::unwind(10)]
fn c18_two_args_roundtrip() {
    let big: bool = kani::any();
    let raw1: [u8; 3] = kani::any();
    let raw2: [u8; 8] = kani::any();
    let l1: usize = kani::any();
    kani::assume(l1 >= 1 && l1 <= 3);
    let k2: u8 = kani::any();
    kani::assume(k2 < 4);
    let (ti2, l2): (u32, usize) = match k2 {
        0 => (DLT_TYPE_INFO_UINT | 1, 1),
        1 => (DLT_TYPE_INFO_SINT | 2, 2),
        2 => (DLT_TYPE_INFO_UINT | 3, 4),
        _ => (DLT_TYPE_INFO_FLOA | 4, 8),
    };
    let s_or_r: bool = kani::any();
    let ti1 = if s_or_r { DLT_TYPE_INFO_STRG | DLT_SCOD_UTF8 } else { DLT_TYPE_INFO_RAWD };
    let args = [
        DltArg { type_info: ti1, is_big_endian: big, payload_raw: &raw1[..l1] },
        DltArg { type_info: ti2, is_big_endian: big, payload_raw: &raw2[..l2] },
    ];
    let payload = crate::utils::payload_from_args(&args);
    let m = DltMessage::get_testmsg_with_payload(big, 2, &payload);
    let mut it = m.into_iter();
    let a1 = it.next();
    assert!(a1.is_some());
    let a1 = a1.unwrap();
    assert_eq!(a1.type_info, ti1);
    assert_eq!(a1.payload_raw.len(), l1);
    let a2 = it.next();
    assert!(a2.is_some());
    let a2 = a2.unwrap();
    assert_eq!(a2.type_info, ti2);
    assert_eq!(a2.payload_raw.len(), l2);
    assert!(it.next().is_none());
    std::mem::forget(m);
    std::mem::forget(payload);
}

// C01 expected finding: short serial stream
#[kani::proof]
#[kani::unwind(30)]
#[kani::stub(alloc::fmt::format, fmt_stub)]
fn c01_serial_single_short() {
    let mut data: [u8; 12] = kani::any();
    data[0] = b'D'; data[1] = b'L'; data[2] = b'S'; data[3] = 1;
    data[4] = 0x20; data[6] = 0; data[7] = 8;
    let mut i = 1;
    while i + 4 <= 12 {
        kani::assume(!is_storage_header_pattern(&data[i..i + 4]));
        kani::assume(!is_serial_header_pattern(&data[i..i + 4]));
        i += 1;
    }
    let mut it = DltMessageIterator::new(0, &data[..]);
    let m = it.next();
    assert!(m.is_some());
    std::mem::forget(m);
}

/// Test generated for harness `dlt::verif_kani::c01_serial_single_short`
///
/// Check for `assertion`: "assertion failed: m.is_some()"
///
/// # Warning
///
/// Concrete playback tests combined with stubs or contracts is highly
/// experimental, and subject to change.
///
/// The original harness has stubs which are not applied to this test.
/// This may cause a mismatch of non-deterministic values if the stub
/// creates any non-deterministic value.
/// The execution path may also differ, which can be used to refine the stub
/// logic.

#[test]
fn kani_concrete_playback_c01_serial_single_short_17371845419445369672() {
    let concrete_vals: Vec<Vec<u8>> = vec![
        // 0
        vec![0],
        // 0
        vec![0],
        // 0
        vec![0],
        // 0
        vec![0],
        // 0
        vec![0],
        // 0
        vec![0],
        // 0
        vec![0],
        // 0
        vec![0],
        // 0
        vec![0],
        // 0
        vec![0],
        // 0
        vec![0],
        // 0
        vec![0],
    ];
    kani::concrete_playback_run(concrete_vals, c01_serial_single_short);
}

// C03 U2: argument iterator on arbitrary payload
#[kani::proof]
#[kani::unwind(8)]
fn c03_u2_arg_iter() {
    let pl: [u8; 12] = kani::any();
    let plen: usize = kani::any();
    kani::assume(plen <= 12);
    let big: bool = kani::any();
    let verb: bool = kani::any();
    let mut m = DltMessage::get_testmsg_with_payload(big, kani::any(), &pl[..plen]);
    if !verb { m.extended_header.as_mut().unwrap().verb_mstp_mtin = kani::any::<u8>() & 0xfe; }
    let base = m.payload.as_ptr() as usize;
    let mut n = 0;
    for a in &m {
        let p = a.payload_raw.as_ptr() as usize;
        assert!(p >= base && p + a.payload_raw.len() <= base + plen);
        n += 1;
        assert!(n <= 3);
    }
    std::mem::forget(m);
}

// C01 L3: iterator plumbing, storage framing: g0 garbage (bytes != 'D'), min msg, g1 garbage, min msg, g2 garbage
fn l3_storage<const G0: usize, const G1: usize, const G2: usize, const N: usize>() {
    let mut data: [u8; N] = kani::any();
    let m0 = G0;
    let m1 = G0 + 20 + G1;
    assert!(m1 + 20 + G2 == N);
    let mut i = 0;
    while i < N {
        let in_msg = (i >= m0 && i < m0 + 20) || (i >= m1 && i < m1 + 20);
        if !in_msg { kani::assume(data[i] != b'D'); }
        i += 1;
    }
    for &m in [m0, m1].iter() {
        data[m] = b'D'; data[m + 1] = b'L'; data[m + 2] = b'T'; data[m + 3] = 1;
        // header bytes 4..16 free except they must not contain 'D' (keeps "marker only at message start")
        let mut j = 4;
        while j < 20 { kani::assume(data[m + j] != b'D'); j += 1; }
        data[m + 16] = 0x20; data[m + 18] = 0; data[m + 19] = 4;
    }
    let start: u32 = kani::any();
    kani::assume(start < 1_000_000);
    let mut it = DltMessageIterator::new(start, &data[..]);
    let a = it.next();
    assert!(a.is_some());
    assert_eq!(a.as_ref().unwrap().index, start);
    assert_eq!(it.bytes_skipped, G0);
    assert_eq!(it.bytes_processed, G0 + 20);
    let b = it.next();
    assert!(b.is_some());
    assert_eq!(b.as_ref().unwrap().index, start + 1);
    assert_eq!(b.as_ref().unwrap().standard_header.mcnt, data[m1 + 17]);
    assert_eq!(it.bytes_skipped, G0 + G1);
    let c = it.next();
    assert!(c.is_none());
    assert!(it.bytes_processed <= N);
    assert!(N - it.bytes_processed < 20);
    assert_eq!(it.index, start + 2);
    assert!(it.detected_storage_header && !it.detected_serial_header);
    std::mem::forget(a); std::mem::forget(b);
}

#[kani::proof]
#[kani::unwind(50)]
#[kani::stub(alloc::fmt::format, fmt_stub)]
fn c01_l3_storage_2_1_3() { l3_storage::<2, 1, 3, { 2 + 20 + 1 + 20 + 3 }>(); }

// C01 L3b: one next() from an arbitrary iterator state after storage framing was detected
#[kani::proof]
#[kani::unwind(30)]
#[kani::stub(alloc::fmt::format, fmt_stub)]
fn c01_l3b_step_after_detection() {
    const G: usize = 3;
    const T: usize = 2;
    const N: usize = G + 20 + T;
    let mut data: [u8; N] = kani::any();
    let mut i = 0;
    while i < N { if i < G || i >= G + 4 { kani::assume(data[i] != b'D'); } i += 1; }
    data[G] = b'D'; data[G + 1] = b'L'; data[G + 2] = b'T'; data[G + 3] = 1;
    data[G + 16] = 0x20; data[G + 18] = 0; data[G + 19] = 4;
    let start: u32 = kani::any();
    kani::assume(start < u32::MAX - 1);
    let bp: usize = kani::any();
    let bs: usize = kani::any();
    kani::assume(bs <= bp && bp < 1_000_000_000);
    let mut it = DltMessageIterator::new(start, &data[..]);
    it.detected_storage_header = true;
    it.bytes_processed = bp;
    it.bytes_skipped = bs;
    let a = it.next();
    assert!(a.is_some());
    assert_eq!(a.as_ref().unwrap().index, start);
    assert_eq!(it.index, start + 1);
    assert_eq!(it.bytes_skipped, bs + G);
    assert_eq!(it.bytes_processed, bp + G + 20);
    assert!(it.detected_storage_header && !it.detected_serial_header);
    let b = it.next();
    assert!(b.is_none());
    assert_eq!(it.bytes_processed, bp + G + 20); // short tail stays unconsumed
    std::mem::forget(a);
}
