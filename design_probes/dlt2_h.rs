use super::*;
pub fn fmt_stub(_args: std::fmt::Arguments<'_>) -> String { String::new() }

fn mk_msg(flags: u8, pl: &[u8]) -> DltMessage {
    let vers: u8 = kani::any();
    let htyp = (vers & 0xe0) | flags;
    let ext = if htyp & 1 != 0 {
        Some(DltExtendedHeader {
            verb_mstp_mtin: kani::any(),
            noar: kani::any(),
            apid: DltChar4::from_buf(&kani::any::<[u8; 4]>()),
            ctid: DltChar4::from_buf(&kani::any::<[u8; 4]>()),
        })
    } else { None };
    let sel: u8 = kani::any();
    let (secs, micros): (u32, u32) = match sel & 3 { 0 => (0, 0), 1 => (u32::MAX, 999_999), 2 => (1_640_995_200, 1), _ => (1, 500_000) };
    DltMessage {
        index: 3,
        reception_time_us: secs as u64 * 1_000_000 + micros as u64,
        ecu: DltChar4::from_buf(&kani::any::<[u8; 4]>()),
        timestamp_dms: if htyp & 0x10 != 0 { kani::any() } else { 0 },
        standard_header: DltStandardHeader { htyp, mcnt: kani::any(), len: kani::any() },
        extended_header: ext,
        payload: pl.to_vec(),
        payload_text: None,
        lifecycle: 0,
    }
}

fn r1(flags: u8, plen: usize) {
    let pl: [u8; 4] = kani::any();
    let m = mk_msg(flags, &pl[..plen]);
    let mut out = [0u8; 48];
    let written = {
        let mut w: &mut [u8] = &mut out[..];
        m.to_write(&mut w).unwrap();
        48 - w.len()
    };
    let r = parse_dlt_with_storage_header(3, &out[..written]);
    assert!(r.is_ok());
    let (consumed, m2) = r.unwrap();
    assert_eq!(consumed, written);
    assert!(m2.ecu == m.ecu);
    assert_eq!(m2.reception_time_us, m.reception_time_us);
    assert_eq!(m2.timestamp_dms, m.timestamp_dms);
    assert_eq!(m2.standard_header.has_timestamp(), m.standard_header.has_timestamp());
    assert_eq!(m2.standard_header.mcnt, m.standard_header.mcnt);
    assert_eq!(m2.is_big_endian(), m.is_big_endian());
    assert!(m2.extended_header == m.extended_header);
    assert_eq!(m2.payload.len(), plen);
    let i: usize = kani::any();
    kani::assume(i < plen);
    assert_eq!(m2.payload[i], pl[i]);
    std::mem::forget(m);
    std::mem::forget(m2);
}

#[kani::proof]
#[kani::unwind(50)]
#[kani::stub(alloc::fmt::format, fmt_stub)]
fn c02_r1_full_p2() { r1(0x1f, 2); }

#[kani::proof]
#[kani::unwind(50)]
#[kani::stub(alloc::fmt::format, fmt_stub)]
fn c02_r1_min_p0() { r1(0x00, 0); }

// write only: how expensive is to_write alone?
#[kani::proof]
#[kani::unwind(50)]
fn c02_write_only_full_p2() {
    let pl: [u8; 4] = kani::any();
    let m = mk_msg(0x1f, &pl[..2]);
    let mut out = [0u8; 48];
    let written = {
        let mut w: &mut [u8] = &mut out[..];
        m.to_write(&mut w).unwrap();
        48 - w.len()
    };
    assert_eq!(written, 16 + 4 + 4 + 10 + 2);
    assert_eq!(out[0], b'D');
    std::mem::forget(m);
}

fn r1c<const LEN: usize>(flags: u8, plen: usize) {
    let pl: [u8; 4] = kani::any();
    let m = mk_msg(flags, &pl[..plen]);
    let mut out = [0u8; LEN];
    {
        let mut w: &mut [u8] = &mut out[..];
        m.to_write(&mut w).unwrap();
        assert_eq!(w.len(), 0); // wrote exactly LEN bytes
    }
    let r = parse_dlt_with_storage_header(3, &out);
    assert!(r.is_ok());
    let (consumed, m2) = r.unwrap();
    assert_eq!(consumed, LEN);
    assert!(m2.ecu == m.ecu);
    assert_eq!(m2.reception_time_us, m.reception_time_us);
    assert_eq!(m2.timestamp_dms, m.timestamp_dms);
    assert_eq!(m2.standard_header.has_timestamp(), m.standard_header.has_timestamp());
    assert_eq!(m2.standard_header.mcnt, m.standard_header.mcnt);
    assert_eq!(m2.is_big_endian(), m.is_big_endian());
    assert!(m2.extended_header == m.extended_header);
    assert_eq!(m2.payload.len(), plen);
    let i: usize = kani::any();
    kani::assume(i < plen);
    assert_eq!(m2.payload[i], pl[i]);
    std::mem::forget(m);
    std::mem::forget(m2);
}

#[kani::proof]
#[kani::unwind(50)]
#[kani::stub(alloc::fmt::format, fmt_stub)]
fn c02_r1c_full_p2() { r1c::<{ 16 + 4 + 4 + 10 + 2 }>(0x1f, 2); }

#[kani::proof]
fn c02_time_lemma() {
    let micros: u32 = kani::any();
    kani::assume(micros < 1_000_000);
    let secs: u32 = kani::any();
    let sh0 = DltStorageHeader { secs, micros, ecu: DltChar4::from_buf(b"ECU1") };
    let t = sh0.reception_time_us();
    let mut m = mk_msg(0, &[]);
    m.reception_time_us = t;
    let sh = DltStorageHeader::from_msg(&m);
    assert_eq!(sh.secs, secs);
    assert_eq!(sh.micros, micros);
    std::mem::forget(m);
}

// C02 R3: length arithmetic for all payload sizes, sink writer
static ZEROS: [u8; 65535] = [0u8; 65535];
#[kani::proof]
fn c02_r3_len_arith() {
    let htyp: u8 = kani::any();
    let len: u16 = kani::any();
    let stdh = DltStandardHeader { htyp, mcnt: kani::any(), len };
    let hdr = stdh.std_ext_header_size();
    kani::assume(len >= hdr);
    let plen = (len - hdr) as usize; // what a successful parse yields
    let ext = if stdh.has_ext_hdr() {
        Some(DltExtendedHeader { verb_mstp_mtin: 0, noar: 0, apid: DltChar4::from_buf(b"APID"), ctid: DltChar4::from_buf(b"CTID") })
    } else { None };
    let ts = if stdh.has_timestamp() { Some(kani::any::<u32>()) } else { None };
    let mut sink = std::io::sink();
    let r = DltStandardHeader::to_write(&mut sink, &stdh, &ext, None, None, ts, &ZEROS[..plen]);
    assert!(r.is_ok());
}

// C03 U3: get_log_info payload parser, all statuses, payload <= 16
pub fn decode_stub<'a>(_e: &'static encoding_rs::Encoding, bytes: &'a [u8]) -> (std::borrow::Cow<'a, str>, bool) {
    let _ = bytes;
    (std::borrow::Cow::Borrowed(""), kani::any())
}
pub fn replace_all_stub<'h, R: regex::Replacer>(_r: &regex::Regex, haystack: &'h str, _rep: R) -> std::borrow::Cow<'h, str> {
    std::borrow::Cow::Borrowed(haystack)
}
pub fn re_deref_stub(_s: &crate::dlt::RE_NEW_LINE) -> &regex::Regex {
    unsafe { &*(std::ptr::NonNull::<regex::Regex>::dangling().as_ptr()) }
}
#[kani::proof]
#[kani::unwind(12)]
#[kani::stub(encoding_rs::Encoding::decode_without_bom_handling, decode_stub)]
#[kani::stub(regex::Regex::replace_all, replace_all_stub)]
#[kani::stub(<crate::dlt::RE_NEW_LINE as std::ops::Deref>::deref, re_deref_stub)]
fn c03_u3_log_info() {
    let pl: [u8; 16] = kani::any();
    let plen: usize = kani::any();
    kani::assume(plen <= 16);
    let status: u8 = kani::any();
    kani::assume(status != 7);
    let r = control_msgs::parse_ctrl_log_info_payload(status, kani::any(), &pl[..plen]);
    std::mem::forget(r);
}

// C04 B2: view independence of the storage parser
#[kani::proof]
#[kani::unwind(40)]
#[kani::stub(alloc::fmt::format, fmt_stub)]
fn c04_b2_view_independence() {
    let data: [u8; 32] = kani::any();
    let n1: usize = kani::any();
    let n2: usize = kani::any();
    kani::assume(n1 <= 32 && n2 <= 32 && n1 <= n2);
    let r1 = parse_dlt_with_storage_header(1, &data[..n1]);
    let r2 = parse_dlt_with_storage_header(1, &data[..n2]);
    if let Ok((c1, m1)) = &r1 {
        // the shorter view already contained message + 4 bytes look-ahead, or both are "the whole rest"
        if n1 >= *c1 + 4 {
            assert!(r2.is_ok());
            if let Ok((c2, m2)) = &r2 {
                assert_eq!(c1, c2);
                assert_eq!(m1.payload.len(), m2.payload.len());
                assert!(m1.standard_header == m2.standard_header);
            }
        }
    }
    if let Ok((c2, _)) = &r2 {
        if n1 >= *c2 + 4 { assert!(r1.is_ok()); }
    }
    std::mem::forget(r1); std::mem::forget(r2);
}

// C18 V3: canonical text for 8/16 bit ints, bool, raw
#[kani::proof]
#[kani::unwind(12)]
#[kani::stub(encoding_rs::Encoding::decode_without_bom_handling, decode_stub)]
#[kani::stub(regex::Regex::replace_all, replace_all_stub)]
#[kani::stub(<crate::dlt::RE_NEW_LINE as std::ops::Deref>::deref, re_deref_stub)]
fn c18_v3_text_small() {
    let big: bool = kani::any();
    let v: u16 = kani::any();
    let raw = if big { v.to_be_bytes() } else { v.to_le_bytes() };
    let b: u8 = kani::any();
    let bl = [b];
    let args = [
        DltArg { type_info: DLT_TYPE_INFO_UINT | 2, is_big_endian: big, payload_raw: &raw },
        DltArg { type_info: DLT_TYPE_INFO_BOOL | 1, is_big_endian: big, payload_raw: &bl },
    ];
    let mut text = String::with_capacity(32);
    let r = DltMessage::process_msg_arg_iter(args.into_iter(), &mut text);
    assert!(r.is_ok());
    let bytes = text.as_bytes();
    // parse back: digits, space, true/false
    let mut acc: u32 = 0;
    let mut i = 0;
    while i < bytes.len() && bytes[i] != b' ' {
        assert!(bytes[i] >= b'0' && bytes[i] <= b'9');
        acc = acc * 10 + (bytes[i] - b'0') as u32;
        i += 1;
    }
    assert!(i >= 1 && i <= 5);
    assert_eq!(acc, v as u32);
    assert!(i == 1 || bytes[0] != b'0');
    let rest = &bytes[i + 1..];
    if b > 0 { assert!(rest.len() == 4 && rest[0] == b't'); } else { assert!(rest.len() == 5 && rest[0] == b'f'); }
    std::mem::forget(text);
}
