use super::*;

// ghost: one watched absolute stream offset
static mut WATCH: usize = 0;
static mut WATCH_VAL: u8 = 0;
static mut WATCH_SET: bool = false;
static mut EMPTY_DEST_READ: bool = false;

struct ScriptReader {
    len: usize,
    pos: usize,
}
impl Read for ScriptReader {
    fn read(&mut self, buf: &mut [u8]) -> std::io::Result<usize> {
        if buf.is_empty() {
            unsafe { EMPTY_DEST_READ = true; }
        }
        let rem = self.len - self.pos;
        let want = if buf.len() < rem { buf.len() } else { rem };
        let n: usize = kani::any();
        kani::assume(n <= want && (n > 0 || want == 0));
        unsafe {
            if WATCH >= self.pos && WATCH < self.pos + n {
                let v: u8 = kani::any();
                buf[WATCH - self.pos] = v;
                WATCH_VAL = v;
                WATCH_SET = true;
            }
        }
        self.pos += n;
        Ok(n)
    }
}

fn step(low_mark: usize, capacity: usize) {
    let src_len: usize = kani::any();
    kani::assume(src_len <= 3 * CACHE_LINE_SIZE);
    let pos: usize = kani::any();
    let cap: usize = kani::any();
    let abs_pos: usize = kani::any();
    kani::assume(pos <= cap && cap <= capacity);
    kani::assume(abs_pos <= src_len && abs_pos + cap <= src_len);
    let inner = ScriptReader { len: src_len, pos: abs_pos + cap };
    let mut r = LowMarkBufReader::new(inner, capacity, low_mark);
    r.pos = pos;
    r.cap = cap;
    r.abs_pos = abs_pos;
    let consumed_before = abs_pos + pos;
    // watch cell: either already buffered (value = current buffer content) or still to be read
    let w: usize = kani::any();
    kani::assume(w >= consumed_before && w < src_len);
    unsafe {
        WATCH = w;
        if w < abs_pos + cap {
            let v: u8 = kani::any();
            r.buf[w - abs_pos] = v;
            WATCH_VAL = v;
            WATCH_SET = true;
        }
    }
    let out_len = {
        let out = r.fill_buf().unwrap();
        if w - consumed_before < out.len() {
            unsafe {
                assert!(WATCH_SET);
                assert_eq!(out[w - consumed_before], WATCH_VAL);
            }
        }
        out.len()
    };
    assert_eq!(r.abs_pos + r.pos, consumed_before);
    assert!(consumed_before + out_len <= src_len);
    assert!(out_len >= low_mark || consumed_before + out_len == src_len);
    unsafe { assert!(!EMPTY_DEST_READ); }
    if r.empty_last_read {
        assert_eq!(r.inner.pos, src_len);
    }
    kani::cover!(r.abs_pos > abs_pos); // compaction happened
    kani::cover!(out_len >= low_mark && r.inner.pos < src_len);
}

#[kani::proof]
#[kani::unwind(8)]
fn c04_fill_buf_step() {
    step(4, 4 + CACHE_LINE_SIZE + 3);
}
