use super::*;
use crate::dlt::{DltChar4, DltExtendedHeader, DltMessage, DltStandardHeader};
use crate::filter::{FilterKind, FilterKindContainer};
use crate::utils::remote_utils::match_filters;

pub fn re_bytes_stub(_r: &regex::bytes::Regex, _h: &[u8]) -> bool { kani::any() }
pub fn re_str_stub(_r: &regex::Regex, _h: &str) -> bool { kani::any() }
pub fn re_fancy_stub(_r: &fancy_regex::Regex, _h: &str) -> fancy_regex::Result<bool> { Ok(kani::any()) }
pub fn pat_stub(_m: &DltMessage) -> Result<std::borrow::Cow<'_, str>, std::fmt::Error> { Ok(std::borrow::Cow::Borrowed("")) }

fn any_c4() -> DltChar4 {
    DltChar4::from_buf(&kani::any::<[u8; 4]>())
}
fn any_opt_c4() -> Option<Char4OrRegex> {
    if kani::any() { Some(Char4OrRegex::DltChar4(any_c4())) } else { None }
}

fn any_simple_filter(kind: FilterKind) -> Filter {
    let mut f = Filter::new(kind);
    f.enabled = kani::any();
    f.negate_match = kani::any();
    f.ecu = any_opt_c4();
    f.apid = any_opt_c4();
    f.ctid = any_opt_c4();
    f.verb_mstp_mtin = if kani::any() { Some((kani::any(), kani::any())) } else { None };
    f.loglevel_min = if kani::any() { Some(kani::any()) } else { None };
    f.loglevel_max = if kani::any() { Some(kani::any()) } else { None };
    f.lifecycles = if kani::any() { Some(vec![kani::any(), kani::any()]) } else { None };
    f
}

fn any_msg() -> DltMessage {
    let has_ext: bool = kani::any();
    DltMessage {
        index: kani::any(),
        reception_time_us: kani::any(),
        ecu: any_c4(),
        timestamp_dms: kani::any(),
        standard_header: DltStandardHeader { htyp: kani::any(), mcnt: 0, len: 4 },
        extended_header: if has_ext {
            Some(DltExtendedHeader { verb_mstp_mtin: kani::any(), noar: kani::any(), apid: any_c4(), ctid: any_c4() })
        } else { None },
        payload: Vec::new(),
        payload_text: None,
        lifecycle: kani::any(),
    }
}

fn c4_holds(c: &Option<Char4OrRegex>, v: Option<&DltChar4>) -> bool {
    match c {
        None => true,
        Some(Char4OrRegex::DltChar4(d)) => match v { Some(x) => x.as_buf() == d.as_buf(), None => false },
        _ => false,
    }
}

fn spec(f: &Filter, m: &DltMessage) -> bool {
    if !f.enabled { return false; }
    let vmm = m.extended_header.as_ref().map(|e| e.verb_mstp_mtin);
    let all = c4_holds(&f.ecu, Some(&m.ecu))
        && c4_holds(&f.apid, m.extended_header.as_ref().map(|e| &e.apid))
        && c4_holds(&f.ctid, m.extended_header.as_ref().map(|e| &e.ctid))
        && match f.verb_mstp_mtin { None => true, Some((v, mask)) => match vmm { Some(x) => x & mask == v, None => false } }
        && match f.loglevel_min { None => true, Some(l) => match vmm { Some(x) => (x >> 1) & 7 == 0 && (x >> 4) >= l, None => false } }
        && match f.loglevel_max { None => true, Some(l) => match vmm { Some(x) => (x >> 1) & 7 == 0 && (x >> 4) <= l, None => false } }
        && match &f.lifecycles { None => true, Some(l) => l.is_empty() || l.contains(&m.lifecycle) };
    all != f.negate_match
}

#[kani::proof]
#[kani::unwind(6)]
#[kani::stub(regex::bytes::Regex::is_match, re_bytes_stub)]
#[kani::stub(regex::Regex::is_match, re_str_stub)]
#[kani::stub(fancy_regex::Regex::is_match, re_fancy_stub)]
#[kani::stub(crate::dlt::DltMessage::payload_as_text, pat_stub)]
fn c11_matches_eq_spec() {
    let f = any_simple_filter(FilterKind::Positive);
    let m = any_msg();
    assert_eq!(f.matches(&m), spec(&f, &m));
    std::mem::forget(f);
    std::mem::forget(m);
}

#[kani::proof]
#[kani::unwind(6)]
#[kani::stub(regex::bytes::Regex::is_match, re_bytes_stub)]
#[kani::stub(regex::Regex::is_match, re_str_stub)]
#[kani::stub(fancy_regex::Regex::is_match, re_fancy_stub)]
#[kani::stub(crate::dlt::DltMessage::payload_as_text, pat_stub)]
fn c12_match_filters_rule() {
    let m = any_msg();
    let mut fs: FilterKindContainer<Vec<Filter>> = Default::default();
    let p1 = any_simple_filter(FilterKind::Positive);
    let n1 = any_simple_filter(FilterKind::Negative);
    let e1 = any_simple_filter(FilterKind::Event);
    kani::assume(p1.enabled && n1.enabled && e1.enabled); // containers only hold enabled filters
    let hp: bool = kani::any();
    let hn: bool = kani::any();
    let he: bool = kani::any();
    let (mp, mn, me) = (p1.matches(&m), n1.matches(&m), e1.matches(&m));
    if hp { fs[FilterKind::Positive].push(p1); }
    if hn { fs[FilterKind::Negative].push(n1); }
    if he { fs[FilterKind::Event].push(e1); }
    let expect = (!hp || mp) && !(hn && mn) && (!he || me);
    assert_eq!(match_filters(&m, &fs), expect);
    std::mem::forget(fs);
    std::mem::forget(m);
}

// ---- C12: filter_as_streams with the channel modelled as FIFO ----
pub static mut Q: [*mut (); 4] = [std::ptr::null_mut(); 4];
pub static mut QHEAD: usize = 0;
pub static mut QLEN: usize = 0;
pub fn recv_model<T>(_rx: &std::sync::mpsc::Receiver<T>) -> Result<T, std::sync::mpsc::RecvError> {
    unsafe {
        if QHEAD < QLEN {
            let p = Q[QHEAD] as *mut T;
            QHEAD += 1;
            Ok(*Box::from_raw(p))
        } else {
            Err(std::sync::mpsc::RecvError)
        }
    }
}

fn ecu_filter(kind: FilterKind) -> Filter {
    let mut f = Filter::new(kind);
    f.enabled = kani::any();
    f.negate_match = kani::any();
    f.ecu = Some(Char4OrRegex::DltChar4(if kani::any() { DltChar4::from_buf(b"ECU1") } else { DltChar4::from_buf(b"ECU2") }));
    f
}
fn ecu_msg(index: u32) -> DltMessage {
    DltMessage {
        index,
        reception_time_us: kani::any(),
        ecu: if kani::any() { DltChar4::from_buf(b"ECU1") } else { DltChar4::from_buf(b"ECU2") },
        timestamp_dms: kani::any(),
        standard_header: DltStandardHeader { htyp: 0x30, mcnt: 0, len: 4 },
        extended_header: None,
        payload: Vec::new(),
        payload_text: None,
        lifecycle: 0,
    }
}

#[kani::proof]
#[kani::unwind(8)]
#[kani::stub(std::sync::mpsc::Receiver::recv, recv_model)]
#[kani::stub(regex::bytes::Regex::is_match, re_bytes_stub)]
#[kani::stub(regex::Regex::is_match, re_str_stub)]
#[kani::stub(fancy_regex::Regex::is_match, re_fancy_stub)]
#[kani::stub(crate::dlt::DltMessage::payload_as_text, pat_stub)]
#[kani::stub(alloc::fmt::format, fmt_stub2)]
fn c12_filter_as_streams_2() {
    let filters = [ecu_filter(FilterKind::Positive), ecu_filter(FilterKind::Negative), ecu_filter(FilterKind::Marker)];
    let m0 = ecu_msg(0);
    let m1 = ecu_msg(1);
    let keep = |m: &DltMessage| -> bool {
        let p = &filters[0]; let n = &filters[1];
        (!p.enabled || p.matches(m)) && !(n.enabled && n.matches(m))
    };
    let (k0, k1) = (keep(&m0), keep(&m1));
    unsafe {
        Q[0] = Box::into_raw(Box::new(m0)) as *mut ();
        Q[1] = Box::into_raw(Box::new(m1)) as *mut ();
        QLEN = 2;
    }
    let (tx, rx) = std::sync::mpsc::sync_channel::<DltMessage>(0);
    let out: std::cell::RefCell<Vec<u32>> = std::cell::RefCell::new(Vec::with_capacity(4));
    let r = crate::filter::functions::filter_as_streams(&filters, &rx, &|m: DltMessage| { out.borrow_mut().push(m.index); std::mem::forget(m); Ok(()) });
    assert!(r.is_ok());
    let (passed, filtered) = r.unwrap();
    assert_eq!(passed + filtered, 2);
    let o = out.borrow();
    assert_eq!(o.len(), passed);
    assert_eq!(passed, k0 as usize + k1 as usize);
    if k0 { assert_eq!(o[0], 0); }
    if k1 { assert_eq!(o[o.len() - 1], 1); }
    std::mem::forget(tx);
    std::mem::forget(rx);
}
pub fn fmt_stub2(_args: std::fmt::Arguments<'_>) -> String { String::new() }

// C12 with single-criterion filters
#[kani::proof]
#[kani::unwind(6)]
#[kani::stub(regex::bytes::Regex::is_match, re_bytes_stub)]
#[kani::stub(regex::Regex::is_match, re_str_stub)]
#[kani::stub(fancy_regex::Regex::is_match, re_fancy_stub)]
#[kani::stub(crate::dlt::DltMessage::payload_as_text, pat_stub)]
fn c12_match_filters_simple() {
    let m = ecu_msg(0);
    let mut fs: FilterKindContainer<Vec<Filter>> = Default::default();
    let mk = |k: FilterKind| { let mut f = ecu_filter(k); f.enabled = true; f };
    let (p1, p2, n1, n2, e1) = (mk(FilterKind::Positive), mk(FilterKind::Positive), mk(FilterKind::Negative), mk(FilterKind::Negative), mk(FilterKind::Event));
    let (vp1, vp2, vn1, vn2, ve1) = (p1.matches(&m), p2.matches(&m), n1.matches(&m), n2.matches(&m), e1.matches(&m));
    let np: u8 = kani::any(); let nn: u8 = kani::any(); let he: bool = kani::any();
    kani::assume(np <= 2 && nn <= 2);
    if np >= 1 { fs[FilterKind::Positive].push(p1); }
    if np >= 2 { fs[FilterKind::Positive].push(p2); }
    if nn >= 1 { fs[FilterKind::Negative].push(n1); }
    if nn >= 2 { fs[FilterKind::Negative].push(n2); }
    if he { fs[FilterKind::Event].push(e1); }
    fs[FilterKind::Marker].push(mk(FilterKind::Marker));
    let pos_ok = np == 0 || vp1 || (np >= 2 && vp2);
    let neg_hit = (nn >= 1 && vn1) || (nn >= 2 && vn2);
    let ev_ok = !he || ve1;
    assert_eq!(match_filters(&m, &fs), pos_ok && !neg_hit && ev_ok);
    std::mem::forget(fs); std::mem::forget(m);
}

// C12 concrete container shape: 1 positive, 1 negative, 1 event, 1 marker
#[kani::proof]
#[kani::unwind(6)]
#[kani::stub(regex::bytes::Regex::is_match, re_bytes_stub)]
#[kani::stub(regex::Regex::is_match, re_str_stub)]
#[kani::stub(fancy_regex::Regex::is_match, re_fancy_stub)]
#[kani::stub(crate::dlt::DltMessage::payload_as_text, pat_stub)]
fn c12_shape_1_1_1() {
    let m = ecu_msg(0);
    let mk = |k: FilterKind| { let mut f = ecu_filter(k); f.enabled = true; f };
    let (p1, n1, e1, k1) = (mk(FilterKind::Positive), mk(FilterKind::Negative), mk(FilterKind::Event), mk(FilterKind::Marker));
    let (vp1, vn1, ve1) = (p1.matches(&m), n1.matches(&m), e1.matches(&m));
    let mut fs: FilterKindContainer<Vec<Filter>> = Default::default();
    fs[FilterKind::Positive].push(p1);
    fs[FilterKind::Negative].push(n1);
    fs[FilterKind::Event].push(e1);
    fs[FilterKind::Marker].push(k1);
    assert_eq!(match_filters(&m, &fs), vp1 && !vn1 && ve1);
    std::mem::forget(fs); std::mem::forget(m);
}
