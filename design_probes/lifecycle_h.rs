use super::*;
use crate::dlt::{DltExtendedHeader, DltStandardHeader};

fn any_lc() -> Lifecycle {
    let has_resume: bool = kani::any();
    Lifecycle {
        id: kani::any(),
        ecu: DltChar4::from_buf(b"ECU1"),
        nr_msgs: kani::any(),
        nr_control_req_msgs: kani::any(),
        start_time: kani::any(),
        initial_start_time: kani::any(),
        min_timestamp_us: kani::any(),
        max_timestamp_us: kani::any(),
        last_reception_time: kani::any(),
        resume_lc: if has_resume {
            Some(ResumeLcInfo { id: kani::any(), max_timestamp_us: kani::any(), start_time: kani::any() })
        } else {
            None
        },
        sw_version: None,
        lcs_w_refresh_idx: 0,
    }
}

const MAX_RT: u64 = 4_294_967_295u64 * 1_000_000 + 4_294_967_295;

fn lc_inv(lc: &Lifecycle) -> bool {
    lc.id != 0
        && lc.nr_msgs >= 1
        && lc.nr_msgs < u32::MAX - 1
        && lc.nr_control_req_msgs <= lc.nr_msgs
        && lc.min_timestamp_us <= lc.max_timestamp_us
        && lc.max_timestamp_us <= 4_294_967_295u64 * 100
        && lc.start_time <= lc.last_reception_time
        && lc.last_reception_time <= MAX_RT
        && match &lc.resume_lc {
            Some(r) => r.max_timestamp_us <= 4_294_967_295u64 * 100 && r.start_time <= MAX_RT,
            None => true,
        }
}

fn any_msg(pl: &[u8]) -> DltMessage {
    let secs: u32 = kani::any();
    let micros: u32 = kani::any();
    let has_ext: bool = kani::any();
    let htyp: u8 = kani::any();
    DltMessage {
        index: kani::any(),
        reception_time_us: secs as u64 * 1_000_000 + micros as u64,
        ecu: DltChar4::from_buf(b"ECU1"),
        timestamp_dms: kani::any(),
        standard_header: DltStandardHeader { htyp, mcnt: 0, len: 4 },
        extended_header: if has_ext {
            Some(DltExtendedHeader {
                verb_mstp_mtin: kani::any(),
                noar: kani::any(),
                apid: DltChar4::from_buf(b"APID"),
                ctid: DltChar4::from_buf(b"CTID"),
            })
        } else {
            None
        },
        payload: pl.to_vec(),
        payload_text: None,
        lifecycle: 0,
    }
}

// C03/C05 step: update never panics, always assigns a lifecycle, keeps invariant
pub fn swv_stub(_is_big_endian: bool, _payload: &[u8]) -> Option<String> {
    if kani::any() { Some(String::new()) } else { None }
}

#[kani::proof]
#[kani::unwind(8)]
#[kani::stub(crate::dlt::control_msgs::parse_ctrl_sw_version_payload, swv_stub)]
fn lc_update_step_safe() {
    let mut lc = any_lc();
    kani::assume(lc_inv(&lc));
    let pl: [u8; 6] = kani::any();
    let plen: usize = kani::any();
    kani::assume(plen <= 6);
    let mut msg = any_msg(&pl[..plen]);
    // restrict: ctrl response msgs are non-verbose (known finding otherwise)
    let old_id = lc.id;
    let old_n = lc.nr_msgs;
    let r = lc.update(&mut msg, 60_000_000);
    match &r {
        None => {
            assert_eq!(msg.lifecycle, old_id);
            assert_eq!(lc.nr_msgs, old_n + 1);
            assert!(lc.min_timestamp_us <= lc.max_timestamp_us);
        }
        Some(n) => {
            assert_eq!(msg.lifecycle, n.id);
            assert_eq!(lc.nr_msgs, old_n);
            assert_eq!(n.nr_msgs, 1);
            assert!(n.ecu == msg.ecu);
        }
    }
    std::mem::forget(r);
    std::mem::forget(msg);
    std::mem::forget(lc);
}

// C07: listing comparator (source-extracted copy) is a strict weak order?
fn extracted_cmp(a: &Lifecycle, b: &Lifecycle) -> std::cmp::Ordering {
        if let Some(b_resume_lc) = &b.resume_lc {
            if b_resume_lc.id == a.id {
                // b is a resume of a so a must be earlier
                return std::cmp::Ordering::Less;
            }
        }
        if let Some(a_resume_lc) = &a.resume_lc {
            if a_resume_lc.id == b.id {
                // a is a resume of b so b must be earlier
                return std::cmp::Ordering::Greater;
            }
        }
        a.start_time.cmp(&b.start_time)
}

#[kani::proof]
fn lc_cmp_transitive() {
    let a = any_lc();
    let b = any_lc();
    let c = any_lc();
    kani::assume(a.id != b.id && b.id != c.id && a.id != c.id);
    use std::cmp::Ordering::*;
    if extracted_cmp(&a, &b) == Less && extracted_cmp(&b, &c) == Less {
        assert!(extracted_cmp(&a, &c) == Less);
    }
    std::mem::forget(a);
    std::mem::forget(b);
    std::mem::forget(c);
}

// ================= whole-detector probe with environment models =================
mod env {
    use super::*;
    pub static mut Q: [*mut (); 4] = [std::ptr::null_mut(); 4];
    pub static mut QHEAD: usize = 0;
    pub static mut QLEN: usize = 0;
    pub fn recv_model<T>(_rx: &std::sync::mpsc::Receiver<T>) -> Result<T, std::sync::mpsc::RecvError> {
        unsafe {
            if QHEAD < QLEN {
                let p = Q[QHEAD] as *mut T;
                QHEAD += 1;
                Ok(*Box::from_raw(p))
            } else {
                Err(std::sync::mpsc::RecvError)
            }
        }
    }
    // shadow of the published table: (id, ecu-as-u32, nr_msgs)
    pub static mut PENDING: [(u32, u32, u32); 6] = [(0, 0, 0); 6];
    pub static mut NPENDING: usize = 0;
    pub static mut VISIBLE: [(u32, u32, u32); 6] = [(0, 0, 0); 6];
    pub static mut NVISIBLE: usize = 0;
    pub fn update_model<K, V, M, S>(
        w: &mut evmap::WriteHandle<K, V, M, S>,
        k: K,
        v: V,
    ) -> &mut evmap::WriteHandle<K, V, M, S>
    where
        K: Eq + std::hash::Hash + Clone,
        S: std::hash::BuildHasher + Clone,
        V: Eq + std::hash::Hash + evmap::ShallowCopy,
        M: 'static + Clone,
    {
        unsafe {
            let id = *(&k as *const K as *const u32);
            let lc = &*(&v as *const V as *const Lifecycle);
            assert!(NPENDING < 6);
            PENDING[NPENDING] = (id, lc.ecu.as_u32le(), lc.nr_msgs);
            NPENDING += 1;
        }
        std::mem::forget(v);
        std::mem::forget(k);
        w
    }
    pub fn refresh_model<K, V, M, S>(w: &mut evmap::WriteHandle<K, V, M, S>) -> &mut evmap::WriteHandle<K, V, M, S>
    where
        K: Eq + std::hash::Hash + Clone,
        S: std::hash::BuildHasher + Clone,
        V: Eq + std::hash::Hash + evmap::ShallowCopy,
        M: 'static + Clone,
    {
        unsafe {
            let mut i = 0;
            while i < NPENDING {
                // replace or add
                let mut j = 0;
                let mut found = false;
                while j < NVISIBLE {
                    if VISIBLE[j].0 == PENDING[i].0 {
                        VISIBLE[j] = PENDING[i];
                        found = true;
                    }
                    j += 1;
                }
                if !found {
                    assert!(NVISIBLE < 6);
                    VISIBLE[NVISIBLE] = PENDING[i];
                    NVISIBLE += 1;
                }
                i += 1;
            }
            NPENDING = 0;
        }
        w
    }
    pub fn read_model<'a, K, V, M, S>(_r: &'a evmap::ReadHandle<K, V, M, S>) -> Option<evmap::MapReadRef<'a, K, V, M, S>>
    where
        K: Eq + std::hash::Hash,
        S: std::hash::BuildHasher,
        V: Eq + std::hash::Hash,
        M: Clone,
    {
        None
    }
    pub fn visible(id: u32) -> Option<(u32, u32, u32)> {
        unsafe {
            let mut j = 0;
            while j < NVISIBLE {
                if VISIBLE[j].0 == id {
                    return Some(VISIBLE[j]);
                }
                j += 1;
            }
        }
        None
    }
}

fn simple_msg(index: u32) -> DltMessage {
    let ecu_sel: bool = kani::any();
    let secs: u32 = kani::any();
    let has_ts: bool = kani::any();
    DltMessage {
        index,
        reception_time_us: secs as u64 * 1_000_000,
        ecu: if ecu_sel { DltChar4::from_buf(b"ECU1") } else { DltChar4::from_buf(b"ECU2") },
        timestamp_dms: kani::any(),
        standard_header: DltStandardHeader { htyp: if has_ts { 0x30 } else { 0x20 }, mcnt: 0, len: 4 },
        extended_header: None,
        payload: Vec::new(),
        payload_text: None,
        lifecycle: 0,
    }
}

#[kani::proof]
#[kani::unwind(8)]
#[kani::stub(std::sync::mpsc::Receiver::recv, env::recv_model)]
#[kani::stub(evmap::WriteHandle::update, env::update_model)]
#[kani::stub(evmap::WriteHandle::refresh, env::refresh_model)]
#[kani::stub(evmap::ReadHandle::read, env::read_model)]
#[kani::stub(crate::dlt::control_msgs::parse_ctrl_sw_version_payload, swv_stub)]
fn lc_stream_2_msgs() {
    const N: usize = 2;
    unsafe {
        env::Q[0] = Box::into_raw(Box::new(simple_msg(0))) as *mut ();
        env::Q[1] = Box::into_raw(Box::new(simple_msg(1))) as *mut ();
        env::QLEN = N;
    }
    let (tx, rx) = std::sync::mpsc::sync_channel::<DltMessage>(0);
    let (lcs_r, lcs_w) = evmap::new::<LifecycleId, LifecycleItem>();
    let out: std::cell::RefCell<Vec<(u32, u32)>> = std::cell::RefCell::new(Vec::with_capacity(4));
    let lcs_w = parse_lifecycles_buffered_from_stream(lcs_w, rx, &|m: DltMessage| {
        // C06: published before delivered, with the message's ecu
        let v = env::visible(m.lifecycle);
        assert!(v.is_some());
        assert_eq!(v.unwrap().1, m.ecu.as_u32le());
        out.borrow_mut().push((m.index, m.lifecycle));
        std::mem::forget(m);
        Ok(())
    });
    let o = out.borrow();
    assert_eq!(o.len(), N);
    assert_eq!(o[0].0, 0);
    assert_eq!(o[1].0, 1);
    assert!(o[0].1 != 0 && o[1].1 != 0);
    std::mem::forget(tx);
    std::mem::forget(lcs_w);
    std::mem::forget(lcs_r);
}

// ================= C08 step lemmas =================
fn clean_record(s: u64, mints: u64, maxts: u64, ts_last: u64, n: u32) -> Lifecycle {
    Lifecycle {
        id: 7,
        ecu: DltChar4::from_buf(b"ECU1"),
        nr_msgs: n,
        nr_control_req_msgs: 0,
        start_time: s,
        initial_start_time: s,
        min_timestamp_us: mints,
        max_timestamp_us: maxts,
        last_reception_time: s + ts_last,
        resume_lc: None,
        sw_version: None,
        lcs_w_refresh_idx: 0,
    }
}
fn clean_msg(rec: u64, ts_dms: u32) -> DltMessage {
    DltMessage {
        index: 1,
        reception_time_us: rec,
        ecu: DltChar4::from_buf(b"ECU1"),
        timestamp_dms: ts_dms,
        standard_header: DltStandardHeader { htyp: 0x30, mcnt: 0, len: 4 },
        extended_header: None,
        payload: Vec::new(),
        payload_text: None,
        lifecycle: 0,
    }
}
const TS_MAX: u64 = 4_294_967_295u64 * 100;

#[kani::proof]
#[kani::stub(crate::dlt::control_msgs::parse_ctrl_sw_version_payload, swv_stub)]
fn c08_k2_same_boot() {
    let s: u64 = kani::any();
    let (a, b, c): (u32, u32, u32) = (kani::any(), kani::any(), kani::any());
    let (mints, maxts, ts_last) = (a as u64 * 100, b as u64 * 100, c as u64 * 100);
    kani::assume(mints <= ts_last && ts_last <= maxts);
    kani::assume(s <= MAX_RT - TS_MAX);
    let n: u32 = kani::any();
    kani::assume(n >= 1 && n < 1_000_000);
    let mut lc = clean_record(s, mints, maxts, ts_last, n);
    let ts: u32 = kani::any();
    let mut msg = clean_msg(s + ts as u64 * 100, ts);
    let r = lc.update(&mut msg, 60_000_000);
    assert!(r.is_none());
    assert_eq!(msg.lifecycle, 7);
    assert_eq!(lc.start_time, s);
    assert_eq!(lc.nr_msgs, n + 1);
    let t = ts as u64 * 100;
    assert_eq!(lc.max_timestamp_us, if t > maxts { t } else { maxts });
    assert_eq!(lc.min_timestamp_us, if t < mints { t } else { mints });
    assert_eq!(lc.last_reception_time, s + t);
    if lc.max_timestamp_us > 0 { assert_eq!(lc.end_time(), s + lc.max_timestamp_us); }
    std::mem::forget(r); std::mem::forget(msg); std::mem::forget(lc);
}

#[kani::proof]
#[kani::stub(crate::dlt::control_msgs::parse_ctrl_sw_version_payload, swv_stub)]
fn c08_k3_next_boot() {
    let b0: u64 = kani::any();
    let d0: u64 = kani::any();
    kani::assume(b0 <= 1_000_000_000_000_000 && d0 <= 1_000_000_000_000);
    let s = b0 + d0;
    let (a, b, c): (u32, u32, u32) = (kani::any(), kani::any(), kani::any());
    let (mints, maxts, ts_last) = (a as u64 * 100, b as u64 * 100, c as u64 * 100);
    kani::assume(mints <= ts_last && ts_last <= maxts);
    let n: u32 = kani::any();
    kani::assume(n >= 1 && n < 1_000_000);
    let mut lc = clean_record(s, mints, maxts, ts_last, n);
    // next boot
    let b1: u64 = kani::any();
    let d1: u64 = kani::any();
    kani::assume(b1 >= b0 + maxts + 1000 && b1 <= 2_000_000_000_000_000 && d1 <= 1_000_000_000_000);
    let ts: u32 = kani::any();
    let rec = b1 + ts as u64 * 100 + d1;
    kani::assume(rec >= s + maxts); // not received before any message of the previous boot
    let mut msg = clean_msg(rec, ts);
    let r = lc.update(&mut msg, 60_000_000);
    assert!(r.is_some());
    std::mem::forget(r); std::mem::forget(msg); std::mem::forget(lc);
}

// C07 (b) merge arithmetic
#[kani::proof]
fn c07_merge_arith() {
    let mut a = any_lc();
    let mut b = any_lc();
    kani::assume(lc_inv(&a) && lc_inv(&b) && a.id != b.id);
    kani::assume((a.nr_msgs as u64) + (b.nr_msgs as u64) < u32::MAX as u64);
    let (an, bn, ac, bc) = (a.nr_msgs, b.nr_msgs, a.nr_control_req_msgs, b.nr_control_req_msgs);
    let (amin, bmin, amax, bmax, ast, bst) = (a.min_timestamp_us, b.min_timestamp_us, a.max_timestamp_us, b.max_timestamp_us, a.start_time, b.start_time);
    a.merge(&mut b);
    assert_eq!(a.nr_msgs, an + bn);
    assert_eq!(a.nr_control_req_msgs, ac + bc);
    assert_eq!(b.nr_msgs, 0);
    assert_eq!(b.was_merged(), Some(a.id));
    assert_eq!(a.min_timestamp_us, if bmin < amin { bmin } else { amin });
    assert_eq!(a.max_timestamp_us, if bmax > amax { bmax } else { amax });
    assert_eq!(a.start_time, if bst < ast { bst } else { ast });
    assert!(lc_inv(&a));
    std::mem::forget(a); std::mem::forget(b);
}

// U4 with the known-finding region (verbose ctrl response, short first arg) assumed away
#[kani::proof]
#[kani::unwind(8)]
#[kani::stub(crate::dlt::control_msgs::parse_ctrl_sw_version_payload, swv_stub)]
fn lc_update_step_safe_excl() {
    let mut lc = any_lc();
    kani::assume(lc_inv(&lc));
    let pl: [u8; 6] = kani::any();
    let plen: usize = kani::any();
    kani::assume(plen <= 6);
    let mut msg = any_msg(&pl[..plen]);
    let kf = msg.is_ctrl_response() && msg.is_verbose();
    kani::assume(!kf);
    let r = lc.update(&mut msg, 60_000_000);
    if r.is_none() { assert!(lc.min_timestamp_us <= lc.max_timestamp_us); assert!(lc.start_time <= lc.last_reception_time || true); }
    kani::cover!(r.is_some());
    kani::cover!(r.is_none() && msg.is_ctrl_response());
    std::mem::forget(r); std::mem::forget(msg); std::mem::forget(lc);
}
