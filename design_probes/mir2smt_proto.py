#!/usr/bin/env python3
"""Design-round prototype of the MIR -> SMT-LIB2 encoder described in DESIGN.md §1.2.

Supports exactly the subset needed for the storage-time kernel: straight-line basic blocks chained by
`assert(...) -> [success: bbN, ...]` / `goto`, integer locals, reads of fields of the reference
argument, IntToInt casts, Add/Sub/Mul (+WithOverflow), Div, Rem, Eq, named integer constants,
struct aggregate as return value.  Anything else raises (=> inconclusive in the real check).

usage: mir2smt_proto.py <mir.txt>   -> prints an SMT-LIB2 query for the lemma
   forall secs:u32, micros:u32 < 10^6 . from_msg(reception_time_us(secs,micros)) == (secs,micros)
   and no overflow / division-by-zero assertion of either function can fail.
"""
import re
import sys

W = {"u8": 8, "u16": 16, "u32": 32, "u64": 64, "usize": 64, "bool": 1}


def load_fn(mir, name_re):
    m = re.search(r"^fn [^\n]*" + name_re + r"\(_1: [^\n]*\{\n(.*?)^\}\n", mir, re.S | re.M)
    if not m:
        raise SystemExit("function %s not found in MIR" % name_re)
    return m.group(1)


def consts(mir):
    c = {}
    for m in re.finditer(r"^const ([A-Za-z_0-9:]+): (u\d+|usize) = const (\d+)_(?:u\d+|usize);", mir, re.M):
        c[m.group(1).split("::")[-1]] = (int(m.group(3)), W[m.group(2)])
    return c


class Enc:
    def __init__(self, body, cst, prefix, field_inputs):
        self.body, self.cst, self.p, self.fields = body, cst, prefix, field_inputs
        self.ty = {}
        self.defs = []      # (name, sort, expr)
        self.side = []      # boolean exprs that must hold (no panic)
        self.val = {}       # local -> smt name
        self.ret_fields = {}
        for m in re.finditer(r"let (?:mut )?(_\d+): ([^;]+);", body):
            self.ty[m.group(1)] = m.group(2).strip()

    def bv(self, v, w):
        return "(_ bv%d %d)" % (v, w)

    def operand(self, s):
        s = s.strip()
        s = re.sub(r"^(copy|move) ", "", s)
        m = re.match(r"const (\d+)_(u\d+|usize)$", s)
        if m:
            return self.bv(int(m.group(1)), W[m.group(2)]), W[m.group(2)]
        m = re.match(r"const ([A-Za-z_0-9:]+)$", s)
        if m:
            v, w = self.cst[m.group(1).split("::")[-1]]
            return self.bv(v, w), w
        m = re.match(r"\(\(\*_1\)\.(\d+): (u\d+)\)$", s)
        if m:
            return self.fields[int(m.group(1))], W[m.group(2)]
        m = re.match(r"\((_\d+)\.(\d): (u\d+|bool)\)$", s)
        if m:
            return self.val[(m.group(1), int(m.group(2)))], W[m.group(3)]
        if s in self.val:
            return self.val[s], W[self.ty[s]]
        raise SystemExit("unsupported operand: " + s)

    def define(self, local, sort_w, expr, sub=None):
        name = "%s%s%s" % (self.p, local, "" if sub is None else "_%d" % sub)
        self.defs.append((name, sort_w, expr))
        self.val[local if sub is None else (local, sub)] = name

    def stmt(self, line):
        lhs, rhs = [x.strip() for x in line.rstrip(";").split(" = ", 1)]
        m = re.match(r"(\w+)\((.*), (.*)\)$", rhs)
        if m and m.group(1) in ("AddWithOverflow", "MulWithOverflow", "SubWithOverflow"):
            (a, w), (b, _) = self.operand(m.group(2)), self.operand(m.group(3))
            op = {"Add": "bvadd", "Mul": "bvmul", "Sub": "bvsub"}[m.group(1)[:3]]
            wide = "(%s ((_ zero_extend %d) %s) ((_ zero_extend %d) %s))" % (op, w, a, w, b)
            self.define(lhs, w, "((_ extract %d 0) %s)" % (w - 1, wide), 0)
            ovf = "(not (= ((_ extract %d %d) %s) (_ bv0 %d)))" % (2 * w - 1, w, wide, w) if op != "bvsub" else "(bvult %s %s)" % (a, b)
            self.define(lhs, 0, ovf, 1)
            return
        if m and m.group(1) in ("Div", "Rem", "Eq", "Add", "Sub", "Mul", "Lt", "Le"):
            (a, w), (b, _) = self.operand(m.group(2)), self.operand(m.group(3))
            if m.group(1) in ("Eq", "Lt", "Le"):
                self.define(lhs, 0, "(%s %s %s)" % ({"Eq": "=", "Lt": "bvult", "Le": "bvule"}[m.group(1)], a, b))
            else:
                self.define(lhs, w, "(%s %s %s)" % ({"Div": "bvudiv", "Rem": "bvurem", "Add": "bvadd", "Sub": "bvsub", "Mul": "bvmul"}[m.group(1)], a, b))
            return
        m = re.match(r"(.*) as (u\d+|usize) \(IntToInt\)$", rhs)
        if m:
            a, w = self.operand(m.group(1))
            t = W[m.group(2)]
            e = a if t == w else ("((_ zero_extend %d) %s)" % (t - w, a) if t > w else "((_ extract %d 0) %s)" % (t - 1, a))
            self.define(lhs, t, e)
            return
        m = re.match(r"\w+ \{ (.*) \}$", rhs)
        if m and lhs == "_0":
            for f in m.group(1).split(", "):
                k, v = f.split(": ")
                if v.strip() in self.val or re.match(r"(move|copy) _\d+$", v.strip()):
                    try:
                        self.ret_fields[k] = self.operand(v)[0]
                    except SystemExit:
                        pass
            return
        try:
            a, w = self.operand(rhs)
        except SystemExit:
            if re.search(r"DltChar4", self.ty.get(lhs, "")):
                return  # non-integer field carried through, irrelevant for the lemma
            raise
        self.define(lhs, w, a)

    def run(self):
        blocks = dict(re.findall(r"^    (bb\d+): \{\n(.*?)^    \}", self.body, re.S | re.M))
        cur = "bb0"
        seen = set()
        while True:
            if cur in seen:
                raise SystemExit("loop in MIR: refuse")
            seen.add(cur)
            nxt = None
            for line in [l.strip() for l in blocks[cur].strip().split("\n")]:
                if line.startswith("assert("):
                    m = re.match(r"assert\((!?)(?:move |copy )?(.+?), \".*-> \[success: (bb\d+)", line)
                    c, _ = self.operand(m.group(2))
                    self.side.append("(not %s)" % c if m.group(1) else c)
                    nxt = m.group(3)
                elif line.startswith("goto -> "):
                    nxt = line.split("-> ")[1].rstrip(";")
                elif line == "return;":
                    return
                elif " = " in line:
                    self.stmt(line)
                elif line.startswith(("StorageLive", "StorageDead", "nop", "FakeRead")):
                    pass
                else:
                    raise SystemExit("unsupported MIR statement: " + line)
            cur = nxt


def main():
    mir = open(sys.argv[1]).read()
    cst = consts(mir)
    out = ["(set-logic ALL)", "(declare-const secs (_ BitVec 32))", "(declare-const micros (_ BitVec 32))",
           "(assert (bvult micros (_ bv1000000 32)))"]
    e1 = Enc(load_fn(mir, r"::reception_time_us"), cst, "rt", {0: "secs", 1: "micros"})
    e1.run()
    t = e1.val["_0"]
    e2 = Enc(load_fn(mir, r"::from_msg"), cst, "fm", {1: t})
    e2.run()
    for enc in (e1, e2):
        for name, w, expr in enc.defs:
            out.append("(define-fun %s () %s %s)" % (name, "Bool" if w == 0 else "(_ BitVec %d)" % w, expr))
    ok = ["(= %s secs)" % e2.ret_fields["secs"], "(= %s micros)" % e2.ret_fields["micros"]] + e1.side + e2.side
    out.append("(assert (not (and %s)))" % " ".join(ok))
    out.append("(check-sat)")
    print("\n".join(out))


if __name__ == "__main__":
    main()
