use super::*;
use crate::utils::seekablechain::SeekableChain;
use crate::utils::sorting_multi_readeriterator::{SequentialMultiIterator, SortingMultiReaderIterator};
use std::io::{Cursor, Read, Seek, SeekFrom, BufRead};

// C20: chain of 3 volumes vs cursor over the concatenation, 3 symbolic ops
#[kani::proof]
#[kani::unwind(8)]
fn c20_chain_ops() {
    let data: [u8; 6] = kani::any();
    let s1: usize = kani::any();
    let s2: usize = kani::any();
    kani::assume(s1 <= s2 && s2 <= 6);
    let vols = vec![Cursor::new(&data[..s1]), Cursor::new(&data[s1..s2]), Cursor::new(&data[s2..])];
    let mut chain = SeekableChain::new(vols);
    let mut pos: usize = 0; // reference position (clamped to len)
    let mut k = 0;
    while k < 3 {
        let op: u8 = kani::any();
        if op == 0 {
            let n: usize = kani::any();
            kani::assume(n <= 4);
            let mut buf = [0u8; 4];
            let r = chain.read(&mut buf[..n]).unwrap();
            assert!(r <= n);
            assert!(pos + r <= 6);
            // never signals EOF early
            if n > 0 && pos < 6 {
                assert!(r > 0);
            }
            let i: usize = kani::any();
            kani::assume(i < r);
            assert_eq!(buf[i], data[pos + i]);
            pos += r;
        } else {
            let t: u64 = kani::any();
            kani::assume(t <= 8);
            let r = chain.seek(SeekFrom::Start(t)).unwrap();
            pos = if t as usize > 6 { 6 } else { t as usize };
            assert_eq!(r as usize, pos);
        }
        k += 1;
    }
}

struct ScriptReader<'a> {
    data: &'a [u8],
    pos: usize,
}
impl Read for ScriptReader<'_> {
    fn read(&mut self, buf: &mut [u8]) -> std::io::Result<usize> {
        let rem = self.data.len() - self.pos;
        let want = if buf.len() < rem { buf.len() } else { rem };
        let n: usize = kani::any();
        kani::assume(n <= want && (n > 0 || want == 0));
        // content is checked via symbolic index only; copy symbolically
        let mut i = 0;
        while i < n {
            buf[i] = self.data[self.pos + i];
            i += 1;
        }
        self.pos += n;
        Ok(n)
    }
}

// C09: merge of 2 sources with <=2 msgs each
fn mk(rt: u64, tag: u8) -> DltMessage {
    DltMessage {
        index: 0,
        reception_time_us: rt,
        ecu: crate::dlt::DltChar4::from_buf(b"ECU1"),
        timestamp_dms: 0,
        standard_header: crate::dlt::DltStandardHeader { htyp: 0x20, mcnt: tag, len: 4 },
        extended_header: None,
        payload: Vec::new(),
        payload_text: None,
        lifecycle: 0,
    }
}

#[kani::proof]
#[kani::unwind(6)]
fn c09_merge_2x2() {
    let n1: usize = kani::any();
    let n2: usize = kani::any();
    kani::assume(n1 <= 2 && n2 <= 2);
    let t: [u64; 4] = kani::any();
    let mut v1 = Vec::new();
    let mut v2 = Vec::new();
    if n1 > 0 { v1.push(mk(t[0], 10)); }
    if n1 > 1 { v1.push(mk(t[1], 11)); }
    if n2 > 0 { v2.push(mk(t[2], 20)); }
    if n2 > 1 { v2.push(mk(t[3], 21)); }
    let its: Vec<Box<dyn Iterator<Item = DltMessage>>> = vec![Box::new(v1.into_iter()), Box::new(v2.into_iter())];
    let start: u32 = kani::any();
    kani::assume(start < 1000);
    let mut it = SortingMultiReaderIterator::new(start, its);
    let mut cnt = 0usize;
    let mut seen10 = false;
    let mut seen20 = false;
    let mut c10 = 0; let mut c11 = 0; let mut c20 = 0; let mut c21 = 0;
    let mut k = 0;
    while k < 5 {
        match it.next() {
            Some(m) => {
                assert_eq!(m.index, start + cnt as u32);
                cnt += 1;
                match m.standard_header.mcnt {
                    10 => { c10 += 1; seen10 = true; }
                    11 => { c11 += 1; assert!(seen10); }
                    20 => { c20 += 1; seen20 = true; }
                    21 => { c21 += 1; assert!(seen20); }
                    _ => { assert!(false); }
                }
                std::mem::forget(m);
            }
            None => { break; }
        }
        k += 1;
    }
    assert_eq!(cnt, n1 + n2);
    assert!(c10 == (n1 > 0) as usize && c11 == (n1 > 1) as usize && c20 == (n2 > 0) as usize && c21 == (n2 > 1) as usize);
    std::mem::forget(it);
}

// C13 helper: branch logic of sync_sender_send_delay_if_full with the channel as nondeterministic environment
static mut SENT: u32 = 0;
static mut TRY_OUTCOME: u8 = 0;
static mut SEND_OK: bool = true;
pub fn try_send_model<T>(_tx: &std::sync::mpsc::SyncSender<T>, t: T) -> Result<(), std::sync::mpsc::TrySendError<T>> {
    unsafe {
        match TRY_OUTCOME {
            0 => { SENT += 1; std::mem::forget(t); Ok(()) }
            1 => Err(std::sync::mpsc::TrySendError::Full(t)),
            _ => Err(std::sync::mpsc::TrySendError::Disconnected(t)),
        }
    }
}
pub fn send_model<T>(_tx: &std::sync::mpsc::SyncSender<T>, t: T) -> Result<(), std::sync::mpsc::SendError<T>> {
    unsafe {
        if SEND_OK { SENT += 1; std::mem::forget(t); Ok(()) } else { Err(std::sync::mpsc::SendError(t)) }
    }
}
pub fn sleep_model(_d: std::time::Duration) {}

#[kani::proof]
#[kani::stub(std::sync::mpsc::SyncSender::try_send, try_send_model)]
#[kani::stub(std::sync::mpsc::SyncSender::send, send_model)]
#[kani::stub(std::thread::sleep, sleep_model)]
fn c13_send_helper() {
    let (tx, rx) = std::sync::mpsc::sync_channel::<u64>(1);
    let v: u64 = kani::any();
    unsafe { TRY_OUTCOME = kani::any(); SEND_OK = kani::any(); kani::assume(TRY_OUTCOME <= 2); }
    let r = sync_sender_send_delay_if_full(v, &tx);
    unsafe {
        match r {
            Ok(()) => assert_eq!(SENT, 1),
            Err(std::sync::mpsc::SendError(x)) => { assert_eq!(SENT, 0); assert_eq!(x, v); }
        }
    }
    std::mem::forget(tx);
    std::mem::forget(rx);
}

// C09 lean: sources are fixed arrays turned into iterators; forget yielded msgs
#[kani::proof]
#[kani::unwind(6)]
fn c09_merge_2x1() {
    let t: [u64; 2] = kani::any();
    let n1: bool = kani::any();
    let n2: bool = kani::any();
    let s1: Option<DltMessage> = if n1 { Some(mk(t[0], 10)) } else { None };
    let s2: Option<DltMessage> = if n2 { Some(mk(t[1], 20)) } else { None };
    let its: Vec<Box<dyn Iterator<Item = DltMessage>>> = vec![Box::new(s1.into_iter()), Box::new(s2.into_iter())];
    let start: u32 = kani::any();
    kani::assume(start < 1000);
    let mut it = SortingMultiReaderIterator::new(start, its);
    let a = it.next();
    let b = it.next();
    let c = it.next();
    assert!(c.is_none());
    let cnt = a.is_some() as usize + b.is_some() as usize;
    assert_eq!(cnt, n1 as usize + n2 as usize);
    if let Some(m) = &a { assert_eq!(m.index, start); }
    if let Some(m) = &b { assert_eq!(m.index, start + 1); }
    if let (Some(x), Some(y)) = (&a, &b) {
        assert!(x.standard_header.mcnt != y.standard_header.mcnt);
        assert!(x.reception_time_us <= y.reception_time_us);
    }
    std::mem::forget(a); std::mem::forget(b); std::mem::forget(it);
}

#[kani::proof]
#[kani::unwind(6)]
fn c09_new_only() {
    let t: [u64; 2] = kani::any();
    let s1: Option<DltMessage> = Some(mk(t[0], 10));
    let s2: Option<DltMessage> = Some(mk(t[1], 20));
    let its: Vec<Box<dyn Iterator<Item = DltMessage>>> = vec![Box::new(s1.into_iter()), Box::new(s2.into_iter())];
    let it = SortingMultiReaderIterator::new(5, its);
    assert_eq!(it.index, 5);
    std::mem::forget(it);
}

#[kani::proof]
#[kani::unwind(6)]
fn c09_chain_2() {
    let t: [u64; 2] = kani::any();
    let n1: bool = kani::any();
    let s1: Option<DltMessage> = if n1 { Some(mk(t[0], 10)) } else { None };
    let s2: Option<DltMessage> = Some(mk(t[1], 20));
    let srcs: [Box<dyn Iterator<Item = DltMessage>>; 2] = [Box::new(s1.into_iter()), Box::new(s2.into_iter())];
    let mut it = SequentialMultiIterator::new(7, srcs.into_iter());
    let a = it.next();
    let b = it.next();
    assert!(a.is_some());
    assert_eq!(a.as_ref().unwrap().index, 7);
    assert_eq!(b.is_some(), n1);
    if n1 {
        assert_eq!(a.as_ref().unwrap().standard_header.mcnt, 10);
        assert_eq!(b.as_ref().unwrap().standard_header.mcnt, 20);
        assert_eq!(b.as_ref().unwrap().index, 8);
    } else {
        assert_eq!(a.as_ref().unwrap().standard_header.mcnt, 20);
    }
    std::mem::forget(a); std::mem::forget(b); std::mem::forget(it);
}

// C20: seek End(+n) then read
#[kani::proof]
#[kani::unwind(8)]
fn c20_seek_end_positive() {
    let data: [u8; 4] = kani::any();
    let vols = vec![Cursor::new(&data[..2]), Cursor::new(&data[2..])];
    let mut chain = SeekableChain::new(vols);
    let off: i64 = kani::any();
    kani::assume(off > 0 && off < 4);
    let r = chain.seek(SeekFrom::End(off)).unwrap();
    assert!(r >= 4);
    let mut buf = [0u8; 2];
    let n = chain.read(&mut buf).unwrap();
    assert_eq!(n, 0); // reference: a cursor past the end reads nothing
}

// C09 M3 alternative: closure sources (no drop glue), 2 sources x 1 message
#[kani::proof]
#[kani::unwind(24)]
fn c09_merge_2x1_fromfn() {
    let t0: u64 = kani::any();
    let t1: u64 = kani::any();
    let mut d0 = false;
    let mut d1 = false;
    let s0 = std::iter::from_fn(move || if !d0 { d0 = true; Some(mk(t0, 10)) } else { None });
    let s1 = std::iter::from_fn(move || if !d1 { d1 = true; Some(mk(t1, 20)) } else { None });
    let mut its: Vec<Box<dyn Iterator<Item = DltMessage>>> = Vec::with_capacity(2);
    its.push(Box::new(s0));
    its.push(Box::new(s1));
    let mut it = SortingMultiReaderIterator::new(5, its);
    let a = it.next();
    assert!(a.is_some());
    let a = a.unwrap();
    assert_eq!(a.index, 5);
    assert!(a.reception_time_us <= t0 && a.reception_time_us <= t1);
    let b = it.next();
    assert!(b.is_some());
    let b = b.unwrap();
    assert_eq!(b.index, 6);
    assert!(b.standard_header.mcnt != a.standard_header.mcnt);
    assert!(a.reception_time_us <= b.reception_time_us);
    let c = it.next();
    assert!(c.is_none());
    std::mem::forget(a);
    std::mem::forget(b);
    std::mem::forget(it);
}

#[kani::proof]
#[kani::unwind(24)]
fn c09_merge_first_next() {
    let t0: u64 = kani::any();
    let t1: u64 = kani::any();
    let mut d0 = false;
    let mut d1 = false;
    let s0 = std::iter::from_fn(move || if !d0 { d0 = true; Some(mk(t0, 10)) } else { None });
    let s1 = std::iter::from_fn(move || if !d1 { d1 = true; Some(mk(t1, 20)) } else { None });
    let mut its: Vec<Box<dyn Iterator<Item = DltMessage>>> = Vec::with_capacity(2);
    its.push(Box::new(s0));
    its.push(Box::new(s1));
    let mut it = SortingMultiReaderIterator::new(5, its);
    let a = it.next();
    assert!(a.is_some());
    let a = a.unwrap();
    assert_eq!(a.index, 5);
    assert!(a.reception_time_us <= t0 && a.reception_time_us <= t1);
    std::mem::forget(a);
    std::mem::forget(it);
}
