use super::*;

fn new_ft(nr_packages: u64, buffer_size: u64, file_size: u64, keep: bool) -> FileTransfer {
    FileTransfer {
        ecu: DltChar4::from_buf(b"ECU1"),
        lifecycle: 1,
        serial: 1,
        state: FileTransferState::Started,
        file_name: String::new(),
        file_size,
        file_creation_date: String::new(),
        nr_packages,
        buffer_size,
        next_package: 1,
        recvd_packages: 0,
        recvd_payload: 0,
        file_data: Vec::with_capacity(if keep { 16 } else { 0 }),
        auto_saved_to: None,
    }
}

// C17: k<=4 FLDA packages with symbolic numbers/sizes; Complete => exactly the in-order split of the file
#[kani::proof]
#[kani::unwind(8)]
fn c17_complete_implies_exact() {
    let file: [u8; 6] = kani::any();
    let fsize: usize = kani::any();
    let bs: usize = kani::any();
    kani::assume(fsize >= 1 && fsize <= 6 && bs >= 1 && bs <= 3);
    let nr = (fsize + bs - 1) / bs;
    kani::assume(nr <= 3);
    let mut ft = new_ft(nr as u64, bs as u64, fsize as u64, true);
    // the sender's packages: package p (1-based) = file[(p-1)*bs .. min(p*bs, fsize)]
    // the channel delivers k arbitrary packages: each is (pnr, bytes) where bytes is an arbitrary slice of an arbitrary buffer
    let mut k = 0;
    while k < 4 {
        let pnr: u64 = kani::any();
        kani::assume(pnr >= 1 && pnr as usize <= nr);
        let s = (pnr as usize - 1) * bs;
        let e = if s + bs < fsize { s + bs } else { fsize };
        // fault: resize (truncate or extend into following file bytes)
        let e2: usize = kani::any();
        kani::assume(e2 >= s && e2 <= 6 && e2 <= s + bs + 1);
        let raw: &[u8] = &file[s..e2];
        let _ = e;
        let arg = DltArg { type_info: crate::dlt::DLT_TYPE_INFO_RAWD, is_big_endian: false, payload_raw: raw };
        if ft.state == FileTransferState::Started {
            let _ = ft.add_flda(pnr, &arg);
        }
        k += 1;
    }
    if ft.state == FileTransferState::Complete {
        assert_eq!(ft.file_data.len(), fsize);
        let i: usize = kani::any();
        kani::assume(i < fsize);
        assert_eq!(ft.file_data[i], file[i]);
    }
    std::mem::forget(ft);
}

// C17 T2 with one duplicate: expected finding
#[kani::proof]
#[kani::unwind(8)]
fn c17_dup_tolerated() {
    let file: [u8; 4] = kani::any();
    let mut ft = new_ft(2, 2, 4, true);
    let mk = |p: &[u8]| -> Vec<u8> { p.to_vec() };
    let p1 = mk(&file[0..2]);
    let p2 = mk(&file[2..4]);
    let a1 = DltArg { type_info: crate::dlt::DLT_TYPE_INFO_RAWD, is_big_endian: false, payload_raw: &p1 };
    let a2 = DltArg { type_info: crate::dlt::DLT_TYPE_INFO_RAWD, is_big_endian: false, payload_raw: &p2 };
    let _ = ft.add_flda(1, &a1);
    if ft.state == FileTransferState::Started { let _ = ft.add_flda(1, &a1); } // duplicate
    if ft.state == FileTransferState::Started { let _ = ft.add_flda(2, &a2); }
    assert!(ft.state == FileTransferState::Complete);
    std::mem::forget(ft);
}

// C03 U5: FLST announcement with arbitrary sizes
pub fn arg_as_string_stub(_arg: &crate::dlt::DltArg) -> Result<String, ()> { Ok(String::new()) }
pub fn update_state_stub(_p: &mut FileTransferPlugin) {}
pub fn hm_insert_stub<K: Eq + std::hash::Hash, V, S: std::hash::BuildHasher>(_m: &mut HashMap<K, V, S>, k: K, v: V) -> Option<V> {
    std::mem::forget(k); std::mem::forget(v); None
}

#[kani::proof]
#[kani::unwind(12)]
#[kani::stub(arg_as_string, arg_as_string_stub)]
#[kani::stub(FileTransferPlugin::update_state, update_state_stub)]
fn c03_u5_flst_alloc() {
    let nr: u32 = kani::any();
    let bs: u32 = kani::any();
    let flst = *b"FLST\0";
    let one = *b"a\0";
    let serial = 1u32.to_le_bytes();
    let fsz = 10u32.to_le_bytes();
    let nrb = nr.to_le_bytes();
    let bsb = bs.to_le_bytes();
    let s = crate::dlt::DLT_TYPE_INFO_STRG;
    let u = DLT_TYPE_INFO_UINT | 3;
    let args = [
        DltArg { type_info: s, is_big_endian: false, payload_raw: &flst },
        DltArg { type_info: u, is_big_endian: false, payload_raw: &serial },
        DltArg { type_info: s, is_big_endian: false, payload_raw: &one },
        DltArg { type_info: u, is_big_endian: false, payload_raw: &fsz },
        DltArg { type_info: s, is_big_endian: false, payload_raw: &one },
        DltArg { type_info: u, is_big_endian: false, payload_raw: &nrb },
        DltArg { type_info: u, is_big_endian: false, payload_raw: &bsb },
        DltArg { type_info: s, is_big_endian: false, payload_raw: &flst },
    ];
    let payload = crate::utils::payload_from_args(&args);
    let mut msg = DltMessage::get_testmsg_with_payload(false, 8, &payload);
    let mut p = FileTransferPlugin {
        name: String::new(), enabled: true, allow_save: true, keep_flda: false, apid: None, ctid: None,
        auto_save_path: None, auto_save_glob: None,
        state: Arc::new(RwLock::new(PluginState::default())),
        transfers: Vec::new(), transfers_idx: HashMap::new(),
    };
    let keep = p.process_msg(&mut msg);
    assert!(keep);
    kani::cover!(p.transfers.len() == 1);
    std::mem::forget(p); std::mem::forget(msg); std::mem::forget(payload);
}
