use adlt::dlt::{DltChar4, DltExtendedHeader, DltMessage, DltStandardHeader};

fn msg(index: u32, ext: Option<DltExtendedHeader>, payload: Vec<u8>) -> DltMessage {
    DltMessage {
        index,
        reception_time_us: 1_600_000_000_000_000 + index as u64 * 1000,
        ecu: DltChar4::from_buf(b"ECU1"),
        timestamp_dms: 10 + index,
        standard_header: DltStandardHeader { htyp: 0x31, mcnt: 0, len: 4 },
        extended_header: ext,
        payload,
        payload_text: None,
        lifecycle: 0,
    }
}

#[test]
fn f2_verbose_ctrl_response_short_first_arg() {
    // verbose (bit0), mstp = control (3<<1), mtin = response (2<<4); first verbose argument: u8 (1 byte)
    let ext = DltExtendedHeader { verb_mstp_mtin: 0x01 | (3 << 1) | (2 << 4), noar: 1, apid: DltChar4::from_buf(b"APID"), ctid: DltChar4::from_buf(b"CTID") };
    let payload = vec![0x41, 0x00, 0x00, 0x00, 0x07]; // type info UINT|8bit (LE), value 7
    let msgs = vec![msg(0, None, vec![]), msg(1, Some(ext), payload)];
    let (tx, rx) = std::sync::mpsc::channel();
    let (tx2, rx2) = std::sync::mpsc::channel();
    for m in msgs { tx.send(m).unwrap(); }
    drop(tx);
    let (_lcs_r, lcs_w) = evmap::new::<adlt::lifecycle::LifecycleId, adlt::lifecycle::LifecycleItem>();
    let _w = adlt::lifecycle::parse_lifecycles_buffered_from_stream(lcs_w, rx, &|m| tx2.send(m));
    drop(tx2);
    assert_eq!(rx2.iter().count(), 2);
}
