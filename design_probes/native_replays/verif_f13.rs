use adlt::dlt::{DLT_MAX_STORAGE_MSG_SIZE, DltMessage};
use adlt::utils::{DltMessageIterator, LowMarkBufReader};
use std::io::Read;

struct Script<'a> { data: &'a [u8], pos: usize, chunks: Vec<usize>, k: usize }
impl Read for Script<'_> {
    fn read(&mut self, buf: &mut [u8]) -> std::io::Result<usize> {
        let rem = self.data.len() - self.pos;
        let want = buf.len().min(rem);
        let n = if self.k < self.chunks.len() { self.chunks[self.k].min(want) } else { want };
        self.k += 1;
        buf[..n].copy_from_slice(&self.data[self.pos..self.pos + n]);
        self.pos += n;
        Ok(n)
    }
}

fn run(data: &[u8], chunks: Vec<usize>) -> Vec<(u32, usize, u8)> {
    let r = LowMarkBufReader::new(Script { data, pos: 0, chunks, k: 0 }, 512 * 1024, DLT_MAX_STORAGE_MSG_SIZE);
    let it = DltMessageIterator::new(0, r);
    it.map(|m: DltMessage| (m.index, m.payload.len(), m.standard_header.mcnt)).collect()
}

#[test]
fn f13_chunking_changes_result_for_max_size_message() {
    let mut data = vec![0x20u8; 0];
    // storage header
    data.extend_from_slice(b"DLT\x01");
    data.extend_from_slice(&[0u8; 8]);
    data.extend_from_slice(b"ECU1");
    // std header: htyp 0x20, mcnt 7, len 65535
    data.extend_from_slice(&[0x20, 7, 0xff, 0xff]);
    let mut payload = vec![0x55u8; 65531];
    // embedded, complete, small message inside the payload
    let inner: Vec<u8> = [b"DLT\x01".as_ref(), &[0u8; 8], b"ECU2", &[0x20, 9, 0, 4]].concat();
    payload[100..100 + inner.len()].copy_from_slice(&inner);
    data.extend_from_slice(&payload);
    assert_eq!(data.len(), DLT_MAX_STORAGE_MSG_SIZE);
    data.extend_from_slice(&[0xAA; 30]); // trailing garbage
    let whole = run(&data, vec![]);
    let split = run(&data, vec![DLT_MAX_STORAGE_MSG_SIZE]);
    println!("whole: {:?}", whole);
    println!("split: {:?}", split);
    assert_eq!(whole, split, "messages recognised must not depend on read chunking");
}
