use adlt::dlt::{DltChar4, DltMessage, DltStandardHeader};

fn msg(index: u32, rec_us: u64, ts_us: u64) -> DltMessage {
    DltMessage {
        index,
        reception_time_us: rec_us,
        ecu: DltChar4::from_buf(b"ECU1"),
        timestamp_dms: (ts_us / 100) as u32,
        standard_header: DltStandardHeader { htyp: 0x30, mcnt: 0, len: 4 },
        extended_header: None,
        payload: vec![],
        payload_text: None,
        lifecycle: 0,
    }
}

#[test]
fn k3_two_clean_boots_decreasing_delay() {
    let s = 1_000_000u64;
    let b0 = 1_600_000_000u64 * s;
    let d0 = 50 * s;
    let mut msgs = vec![];
    let mut idx = 0;
    for k in 0..=10u64 {
        let ts = k * 10 * s;
        msgs.push(msg(idx, b0 + ts + d0, ts));
        idx += 1;
    }
    let b1 = b0 + 101 * s; // off-time 1 s after the last timestamp of boot 0
    let d1 = 0;
    for k in 6..=16u64 {
        let ts = k * 10 * s;
        msgs.push(msg(idx, b1 + ts + d1, ts));
        idx += 1;
    }
    // clean-trace preconditions
    let last0 = msgs[10].reception_time_us;
    assert!(msgs[11..].iter().all(|m| m.reception_time_us >= last0));
    let (tx, rx) = std::sync::mpsc::channel();
    let (tx2, rx2) = std::sync::mpsc::channel();
    for m in msgs { tx.send(m).unwrap(); }
    drop(tx);
    let (lcs_r, lcs_w) = evmap::new::<adlt::lifecycle::LifecycleId, adlt::lifecycle::LifecycleItem>();
    let _lcs_w = adlt::lifecycle::parse_lifecycles_buffered_from_stream(lcs_w, rx, &|m| tx2.send(m));
    drop(tx2);
    let out: Vec<DltMessage> = rx2.iter().collect();
    let n_lcs = lcs_r.read().unwrap().len();
    let ids: std::collections::BTreeSet<u32> = out.iter().map(|m| m.lifecycle).collect();
    println!("lifecycles in table: {}, distinct ids on messages: {:?}", n_lcs, ids);
    for (_id, b) in &lcs_r.read().unwrap() {
        let lc = b.get_one().unwrap();
        println!("lc {} start {} end {} nr {}", lc.id(), lc.start_time, lc.end_time(), lc.nr_msgs);
    }
    assert_eq!(n_lcs, 2, "two cleanly separated boots must give two lifecycles");
}
