// harness for pipeline stage functions with the std channel modelled as a FIFO (Receiver::recv stubbed)
use super::*;
use crate::dlt::{DltChar4, DltMessage, DltStandardHeader};

pub static mut Q: [*mut (); 4] = [std::ptr::null_mut(); 4];
pub static mut QHEAD: usize = 0;
pub static mut QLEN: usize = 0;
pub fn recv_model<T>(_rx: &std::sync::mpsc::Receiver<T>) -> Result<T, std::sync::mpsc::RecvError> {
    unsafe {
        if QHEAD < QLEN {
            let p = Q[QHEAD] as *mut T;
            QHEAD += 1;
            Ok(*Box::from_raw(p))
        } else {
            Err(std::sync::mpsc::RecvError)
        }
    }
}
pub fn read_none<'a, K, V, M, S>(_r: &'a evmap::ReadHandle<K, V, M, S>) -> Option<evmap::MapReadRef<'a, K, V, M, S>>
where
    K: Eq + std::hash::Hash,
    S: std::hash::BuildHasher,
    V: Eq + std::hash::Hash,
    M: Clone,
{
    None
}

fn mk(index: u32) -> DltMessage {
    let secs: u32 = kani::any();
    DltMessage {
        index,
        reception_time_us: secs as u64 * 1_000_000,
        ecu: if kani::any() { DltChar4::from_buf(b"ECU1") } else { DltChar4::from_buf(b"ECU2") },
        timestamp_dms: kani::any(),
        standard_header: DltStandardHeader { htyp: 0x30, mcnt: 0, len: 4 },
        extended_header: None,
        payload: Vec::new(),
        payload_text: None,
        lifecycle: kani::any(),
    }
}

// C10: buffer_sort_messages, n = 2, empty lifecycle table
#[kani::proof]
#[kani::unwind(8)]
#[kani::stub(std::sync::mpsc::Receiver::recv, recv_model)]
#[kani::stub(evmap::ReadHandle::read, read_none)]
fn c10_sort_2() {
    unsafe {
        Q[0] = Box::into_raw(Box::new(mk(0))) as *mut ();
        Q[1] = Box::into_raw(Box::new(mk(1))) as *mut ();
        QLEN = 2;
    }
    let (tx, rx) = std::sync::mpsc::sync_channel::<DltMessage>(0);
    let (lcs_r, lcs_w) = evmap::new::<crate::lifecycle::LifecycleId, crate::lifecycle::LifecycleItem>();
    let out: std::cell::RefCell<Vec<u32>> = std::cell::RefCell::new(Vec::with_capacity(4));
    let r = buffer_sort_messages(rx, &|m: DltMessage| { out.borrow_mut().push(m.index); std::mem::forget(m); Ok(()) }, &lcs_r, 3, 20_000_000);
    assert!(r.is_ok());
    let o = out.borrow();
    assert_eq!(o.len(), 2);
    assert!((o[0] == 0 && o[1] == 1) || (o[0] == 1 && o[1] == 0));
    std::mem::forget(tx);
    std::mem::forget(lcs_w);
    std::mem::forget(lcs_r);
}
