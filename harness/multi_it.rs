// C09 — SequentialMultiIterator / SortingMultiReaderIterator (child module of utils::sorting_multi_readeriterator:
// MinHeapEntry and the private min_heap field are visible).
use super::*;
use crate::dlt::{DltChar4, DltStandardHeader};

fn mk(rt: u64, tag: u8) -> DltMessage {
    DltMessage {
        index: 0xdead_0000,
        reception_time_us: rt,
        ecu: DltChar4::from_buf(b"ECU1"),
        timestamp_dms: 0,
        standard_header: DltStandardHeader { htyp: 0x20, mcnt: tag, len: 4 },
        extended_header: None,
        payload: Vec::new(),
        payload_text: None,
        lifecycle: 0,
    }
}

type Src<'a> = Box<dyn Iterator<Item = DltMessage> + 'a>;

/// a source with n (0..=2) pending messages, tags base+0, base+1, arbitrary reception times (no order assumed)
fn source<'a>(n: u8, base: u8, t0: u64, t1: u64) -> Src<'a> {
    let mut k = 0u8;
    Box::new(std::iter::from_fn(move || {
        if k < n {
            k += 1;
            Some(mk(if k == 1 { t0 } else { t1 }, base + k - 1))
        } else {
            None
        }
    }))
}

// ---------------------------------------------------------------------------------------------
// M1: sequential chain == concatenation, numbered consecutively from the start index.
// The SHAPE (number of pending messages 0..2 of each source, base-3 digits of the const SHAPE) is concrete, one solver
// query per shape; start index and reception times are symbolic. (A formulation with symbolic counts needs > 19 GB:
// the recursion in SequentialMultiIterator::next is then unrolled at every call.)
// ---------------------------------------------------------------------------------------------
const fn digit(shape: u32, i: usize) -> u8 {
    let mut s = shape;
    let mut k = 0;
    while k < i {
        s /= 3;
        k += 1;
    }
    (s % 3) as u8
}

fn chain_shape<const N: usize, const SHAPE: u32>() {
    chain_shape_via::<N, SHAPE>(false)
}

/// `via_nos`: build the chain through SequentialMultiIterator::new_or_single_it (for N >= 2 it must behave exactly like new();
/// added after seeded change C09-6, which broke it for exactly two sources)
fn chain_shape_via<const N: usize, const SHAPE: u32>(via_nos: bool) {
    let t: [u64; N] = kani::any();
    let start: u32 = kani::any();
    kani::assume(start <= u32::MAX - 2 * N as u32);
    let mut srcs: Vec<Src> = Vec::with_capacity(N);
    let mut i = 0;
    while i < N {
        srcs.push(source(digit(SHAPE, i), (i as u8) * 10, t[i], t[i]));
        i += 1;
    }
    let mut it: Box<dyn Iterator<Item = DltMessage>> = if via_nos {
        assert!(N >= 2);
        SequentialMultiIterator::new_or_single_it(start, srcs.into_iter())
    } else {
        Box::new(SequentialMultiIterator::new(start, srcs.into_iter()))
    };
    let mut cnt = 0u32;
    let mut s = 0;
    while s < N {
        let mut p = 0;
        while p < digit(SHAPE, s) {
            let m = it.next().unwrap(); // nothing lost
            assert_eq!(m.standard_header.mcnt, (s as u8) * 10 + p);
            assert_eq!(m.index, start + cnt);
            assert_eq!(m.reception_time_us, t[s]);
            cnt += 1;
            p += 1;
            std::mem::forget(m);
        }
        s += 1;
    }
    assert!(it.next().is_none()); // nothing invented
    assert!(it.next().is_none()); // and it stays exhausted
    kani::cover!(start > 1000, "symbolic start index");
    std::mem::forget(it);
}

macro_rules! chain_h {
    ($name:ident, $n:expr, $shape:expr, $unw:expr) => {
        #[kani::proof]
        #[kani::unwind($unw)]
        fn $name() {
            chain_shape::<$n, $shape>();
        }
    };
}
// @generated chain shapes
macro_rules! chain_nos_h {
    ($name:ident, $n:expr, $shape:expr, $unw:expr) => {
        #[kani::proof]
        #[kani::unwind($unw)]
        fn $name() {
            chain_shape_via::<$n, $shape>(true);
        }
    };
}
chain_nos_h!(c09_chain_nos2_s04, 2, 4, 8);
chain_nos_h!(c09_chain_nos2_s05, 2, 5, 8);
chain_nos_h!(c09_chain_nos2_s03, 2, 3, 8);
chain_nos_h!(c09_chain_nos3_s13, 3, 13, 10);
chain_nos_h!(c09_chain_nos3_s21, 3, 21, 10);
chain_h!(c09_chain2_s00, 2, 0, 8);
chain_h!(c09_chain2_s01, 2, 1, 8);
chain_h!(c09_chain2_s02, 2, 2, 8);
chain_h!(c09_chain2_s03, 2, 3, 8);
chain_h!(c09_chain2_s04, 2, 4, 8);
chain_h!(c09_chain2_s05, 2, 5, 8);
chain_h!(c09_chain2_s06, 2, 6, 8);
chain_h!(c09_chain2_s07, 2, 7, 8);
chain_h!(c09_chain2_s08, 2, 8, 8);
chain_h!(c09_chain3_s00, 3, 0, 10);
chain_h!(c09_chain3_s01, 3, 1, 10);
chain_h!(c09_chain3_s02, 3, 2, 10);
chain_h!(c09_chain3_s03, 3, 3, 10);
chain_h!(c09_chain3_s04, 3, 4, 10);
chain_h!(c09_chain3_s05, 3, 5, 10);
chain_h!(c09_chain3_s06, 3, 6, 10);
chain_h!(c09_chain3_s07, 3, 7, 10);
chain_h!(c09_chain3_s08, 3, 8, 10);
chain_h!(c09_chain3_s09, 3, 9, 10);
chain_h!(c09_chain3_s10, 3, 10, 10);
chain_h!(c09_chain3_s11, 3, 11, 10);
chain_h!(c09_chain3_s12, 3, 12, 10);
chain_h!(c09_chain3_s13, 3, 13, 10);
chain_h!(c09_chain3_s14, 3, 14, 10);
chain_h!(c09_chain3_s15, 3, 15, 10);
chain_h!(c09_chain3_s16, 3, 16, 10);
chain_h!(c09_chain3_s17, 3, 17, 10);
chain_h!(c09_chain3_s18, 3, 18, 10);
chain_h!(c09_chain3_s19, 3, 19, 10);
chain_h!(c09_chain3_s20, 3, 20, 10);
chain_h!(c09_chain3_s21, 3, 21, 10);
chain_h!(c09_chain3_s22, 3, 22, 10);
chain_h!(c09_chain3_s23, 3, 23, 10);
chain_h!(c09_chain3_s24, 3, 24, 10);
chain_h!(c09_chain3_s25, 3, 25, 10);
chain_h!(c09_chain3_s26, 3, 26, 10);
chain_h!(c09_chain4_s00, 4, 0, 12);
chain_h!(c09_chain4_s01, 4, 1, 12);
chain_h!(c09_chain4_s02, 4, 2, 12);
chain_h!(c09_chain4_s03, 4, 3, 12);
chain_h!(c09_chain4_s04, 4, 4, 12);
chain_h!(c09_chain4_s05, 4, 5, 12);
chain_h!(c09_chain4_s06, 4, 6, 12);
chain_h!(c09_chain4_s07, 4, 7, 12);
chain_h!(c09_chain4_s08, 4, 8, 12);
chain_h!(c09_chain4_s09, 4, 9, 12);
chain_h!(c09_chain4_s10, 4, 10, 12);
chain_h!(c09_chain4_s11, 4, 11, 12);
chain_h!(c09_chain4_s12, 4, 12, 12);
chain_h!(c09_chain4_s13, 4, 13, 12);
chain_h!(c09_chain4_s14, 4, 14, 12);
chain_h!(c09_chain4_s15, 4, 15, 12);
chain_h!(c09_chain4_s16, 4, 16, 12);
chain_h!(c09_chain4_s17, 4, 17, 12);
chain_h!(c09_chain4_s18, 4, 18, 12);
chain_h!(c09_chain4_s19, 4, 19, 12);
chain_h!(c09_chain4_s20, 4, 20, 12);
chain_h!(c09_chain4_s21, 4, 21, 12);
chain_h!(c09_chain4_s22, 4, 22, 12);
chain_h!(c09_chain4_s23, 4, 23, 12);
chain_h!(c09_chain4_s24, 4, 24, 12);
chain_h!(c09_chain4_s25, 4, 25, 12);
chain_h!(c09_chain4_s26, 4, 26, 12);
chain_h!(c09_chain4_s27, 4, 27, 12);
chain_h!(c09_chain4_s28, 4, 28, 12);
chain_h!(c09_chain4_s29, 4, 29, 12);
chain_h!(c09_chain4_s30, 4, 30, 12);
chain_h!(c09_chain4_s31, 4, 31, 12);
chain_h!(c09_chain4_s32, 4, 32, 12);
chain_h!(c09_chain4_s33, 4, 33, 12);
chain_h!(c09_chain4_s34, 4, 34, 12);
chain_h!(c09_chain4_s35, 4, 35, 12);
chain_h!(c09_chain4_s36, 4, 36, 12);
chain_h!(c09_chain4_s37, 4, 37, 12);
chain_h!(c09_chain4_s38, 4, 38, 12);
chain_h!(c09_chain4_s39, 4, 39, 12);
chain_h!(c09_chain4_s40, 4, 40, 12);
chain_h!(c09_chain4_s41, 4, 41, 12);
chain_h!(c09_chain4_s42, 4, 42, 12);
chain_h!(c09_chain4_s43, 4, 43, 12);
chain_h!(c09_chain4_s44, 4, 44, 12);
chain_h!(c09_chain4_s45, 4, 45, 12);
chain_h!(c09_chain4_s46, 4, 46, 12);
chain_h!(c09_chain4_s47, 4, 47, 12);
chain_h!(c09_chain4_s48, 4, 48, 12);
chain_h!(c09_chain4_s49, 4, 49, 12);
chain_h!(c09_chain4_s50, 4, 50, 12);
chain_h!(c09_chain4_s51, 4, 51, 12);
chain_h!(c09_chain4_s52, 4, 52, 12);
chain_h!(c09_chain4_s53, 4, 53, 12);
chain_h!(c09_chain4_s54, 4, 54, 12);
chain_h!(c09_chain4_s55, 4, 55, 12);
chain_h!(c09_chain4_s56, 4, 56, 12);
chain_h!(c09_chain4_s57, 4, 57, 12);
chain_h!(c09_chain4_s58, 4, 58, 12);
chain_h!(c09_chain4_s59, 4, 59, 12);
chain_h!(c09_chain4_s60, 4, 60, 12);
chain_h!(c09_chain4_s61, 4, 61, 12);
chain_h!(c09_chain4_s62, 4, 62, 12);
chain_h!(c09_chain4_s63, 4, 63, 12);
chain_h!(c09_chain4_s64, 4, 64, 12);
chain_h!(c09_chain4_s65, 4, 65, 12);
chain_h!(c09_chain4_s66, 4, 66, 12);
chain_h!(c09_chain4_s67, 4, 67, 12);
chain_h!(c09_chain4_s68, 4, 68, 12);
chain_h!(c09_chain4_s69, 4, 69, 12);
chain_h!(c09_chain4_s70, 4, 70, 12);
chain_h!(c09_chain4_s71, 4, 71, 12);
chain_h!(c09_chain4_s72, 4, 72, 12);
chain_h!(c09_chain4_s73, 4, 73, 12);
chain_h!(c09_chain4_s74, 4, 74, 12);
chain_h!(c09_chain4_s75, 4, 75, 12);
chain_h!(c09_chain4_s76, 4, 76, 12);
chain_h!(c09_chain4_s77, 4, 77, 12);
chain_h!(c09_chain4_s78, 4, 78, 12);
chain_h!(c09_chain4_s79, 4, 79, 12);
chain_h!(c09_chain4_s80, 4, 80, 12);

/// documented exception: with exactly one source new_or_single_it hands out the source itself (index untouched);
/// otherwise it behaves like new()
#[kani::proof]
#[kani::unwind(6)]
fn c09_chain_single_shortcut() {
    let t: u64 = kani::any();
    let n: u8 = kani::any();
    kani::assume(n <= 2);
    let srcs: Vec<Src> = vec![source(n, 0, t, t)];
    let mut it = SequentialMultiIterator::new_or_single_it(5, srcs.into_iter());
    let a = it.next();
    assert_eq!(a.is_some(), n > 0);
    if let Some(m) = &a {
        assert_eq!(m.standard_header.mcnt, 0);
        assert!(m.index == 0xdead_0000 || m.index == 5);
    }
    let b = it.next();
    assert_eq!(b.is_some(), n > 1);
    kani::cover!(n == 2);
    std::mem::forget((a, b, it));
}

// ---------------------------------------------------------------------------------------------
// M2: heap order = reverse reception-time order, consistent with eq
// ---------------------------------------------------------------------------------------------
#[kani::proof]
fn c09_heap_entry_order() {
    let (ta, tb, tc): (u64, u64, u64) = (kani::any(), kani::any(), kani::any());
    let a = MinHeapEntry { m: mk(ta, 1), it: Box::new(std::iter::empty()) };
    let b = MinHeapEntry { m: mk(tb, 2), it: Box::new(std::iter::empty()) };
    let c = MinHeapEntry { m: mk(tc, 3), it: Box::new(std::iter::empty()) };
    // BinaryHeap is a max-heap on Ord: the entry with the SMALLEST reception time must be the greatest
    assert_eq!(a.cmp(&b), tb.cmp(&ta));
    assert_eq!(a.partial_cmp(&b), Some(tb.cmp(&ta)));
    assert_eq!(a == b, ta == tb);
    assert_eq!(a == b, a.cmp(&b) == Ordering::Equal);
    if a.cmp(&b) == Ordering::Greater && b.cmp(&c) == Ordering::Greater {
        assert!(a.cmp(&c) == Ordering::Greater);
    }
    kani::cover!(ta < tb);
    std::mem::forget((a, b, c));
}

// ---------------------------------------------------------------------------------------------
// M3: one merge step from every state with <= N live sources. Shape (pending messages 0..2 per source) concrete,
// reception times and start index symbolic, no ordering assumption.
// ---------------------------------------------------------------------------------------------
fn merge_step_shape<const N: usize, const SHAPE: u32>() {
    let t0: [u64; N] = kani::any();
    let t1: [u64; N] = kani::any();
    let start: u32 = kani::any();
    kani::assume(start < u32::MAX);
    let mut its: Vec<Src> = Vec::with_capacity(N);
    let mut live = 0usize;
    let mut i = 0;
    while i < N {
        if digit(SHAPE, i) > 0 {
            live += 1;
        }
        its.push(source(digit(SHAPE, i), (i as u8) * 10, t0[i], t1[i]));
        i += 1;
    }
    let mut it = SortingMultiReaderIterator::new(start, its);
    assert_eq!(it.index, start);
    assert_eq!(it.min_heap.len(), live);
    let a = it.next();
    if live == 0 {
        assert!(a.is_none());
        assert_eq!(it.index, start);
    } else {
        let a = a.unwrap();
        assert_eq!(a.index, start);
        assert_eq!(it.index, start + 1);
        let tag = a.standard_header.mcnt;
        let s = (tag / 10) as usize;
        // a is the HEAD of a live source, with the smallest reception time of all heads
        assert!(s < N && tag % 10 == 0 && digit(SHAPE, s) > 0);
        assert_eq!(a.reception_time_us, t0[s]);
        let mut j = 0;
        while j < N {
            if digit(SHAPE, j) > 0 {
                assert!(a.reception_time_us <= t0[j]);
            }
            j += 1;
        }
        // afterwards the heap holds exactly: the heads of the other live sources + the NEXT message of source s
        let expect = live - 1 + (digit(SHAPE, s) > 1) as usize;
        assert_eq!(it.min_heap.len(), expect);
        let mut seen = [false; N];
        for e in it.min_heap.iter() {
            let etag = e.m.standard_header.mcnt;
            let es = (etag / 10) as usize;
            assert!(es < N && !seen[es]); // one entry per source
            seen[es] = true;
            if es == s {
                assert!(etag % 10 == 1 && digit(SHAPE, s) == 2); // refilled from the SAME source with its next message
                assert_eq!(e.m.reception_time_us, t1[s]);
            } else {
                assert!(etag % 10 == 0 && digit(SHAPE, es) > 0);
                assert_eq!(e.m.reception_time_us, t0[es]);
            }
        }
        std::mem::forget(a);
    }
    kani::cover!(start > 1000, "symbolic start index");
    std::mem::forget(it);
}

macro_rules! merge_h {
    ($name:ident, $n:expr, $shape:expr) => {
        #[kani::proof]
        #[kani::unwind(24)]
        fn $name() {
            merge_step_shape::<$n, $shape>();
        }
    };
}
// @generated merge shapes
merge_h!(c09_merge2_s00, 2, 0);
merge_h!(c09_merge2_s01, 2, 1);
merge_h!(c09_merge2_s02, 2, 2);
merge_h!(c09_merge2_s03, 2, 3);
merge_h!(c09_merge2_s04, 2, 4);
merge_h!(c09_merge2_s05, 2, 5);
merge_h!(c09_merge2_s06, 2, 6);
merge_h!(c09_merge2_s07, 2, 7);
merge_h!(c09_merge2_s08, 2, 8);
merge_h!(c09_merge3_s00, 3, 0);
merge_h!(c09_merge3_s01, 3, 1);
merge_h!(c09_merge3_s02, 3, 2);
merge_h!(c09_merge3_s03, 3, 3);
merge_h!(c09_merge3_s04, 3, 4);
merge_h!(c09_merge3_s05, 3, 5);
merge_h!(c09_merge3_s06, 3, 6);
merge_h!(c09_merge3_s07, 3, 7);
merge_h!(c09_merge3_s08, 3, 8);
merge_h!(c09_merge3_s09, 3, 9);
merge_h!(c09_merge3_s10, 3, 10);
merge_h!(c09_merge3_s11, 3, 11);
merge_h!(c09_merge3_s12, 3, 12);
merge_h!(c09_merge3_s13, 3, 13);
merge_h!(c09_merge3_s14, 3, 14);
merge_h!(c09_merge3_s15, 3, 15);
merge_h!(c09_merge3_s16, 3, 16);
merge_h!(c09_merge3_s17, 3, 17);
merge_h!(c09_merge3_s18, 3, 18);
merge_h!(c09_merge3_s19, 3, 19);
merge_h!(c09_merge3_s20, 3, 20);
merge_h!(c09_merge3_s21, 3, 21);
merge_h!(c09_merge3_s22, 3, 22);
merge_h!(c09_merge3_s23, 3, 23);
merge_h!(c09_merge3_s24, 3, 24);
merge_h!(c09_merge3_s25, 3, 25);
merge_h!(c09_merge3_s26, 3, 26);

/// new_or_single_it: one source => the source itself (index untouched, documented); else the merging iterator
#[kani::proof]
#[kani::unwind(24)]
fn c09_merge_single_shortcut() {
    let t: u64 = kani::any();
    let its: Vec<Src> = vec![source(1, 0, t, t)];
    let mut it = SortingMultiReaderIterator::new_or_single_it(5, its);
    let a = it.next().unwrap();
    assert_eq!(a.standard_header.mcnt, 0);
    assert_eq!(a.reception_time_us, t);
    assert!(it.next().is_none());
    std::mem::forget((a, it));
}

// (Two consecutive next() calls in ONE harness exceed 27 GB even for a concrete 2x2 shape - every BinaryHeap::pop swaps
//  136-byte entries; probed twice. The multi-step statement therefore rests on the step lemma M3 + std's heap invariant.)
