// C18-V3 (partial) — text rendering of verbose arguments whose text needs no float / string decoding:
// separator rule and canonical text of booleans, 8-bit integers and EMPTY string/raw arguments (child module of `dlt`).
// process_msg_arg_iter mentions the lazily built newline regex and encoding_rs (kani-compiler ICE) -> the same three call
// targets as in dlt_ctrl.rs are stubbed; they are never executed for the argument kinds generated here.
use super::*;

pub fn decode_stub<'a>(_e: &'static encoding_rs::Encoding, bytes: &'a [u8]) -> (std::borrow::Cow<'a, str>, bool) {
    let _ = bytes;
    (std::borrow::Cow::Borrowed(""), false)
}
pub fn replace_all_stub<'h, R: regex::Replacer>(_r: &regex::Regex, haystack: &'h str, _rep: R) -> std::borrow::Cow<'h, str> {
    std::borrow::Cow::Borrowed(haystack)
}
/// float text is outside the claim; without these two stubs CBMC unwinds core's grisu/bignum float formatter on paths it cannot
/// rule out by constant propagation (> 15 min instead of 30 s)
pub fn f32_display_stub(_v: &f32, _f: &mut std::fmt::Formatter<'_>) -> std::fmt::Result {
    Ok(())
}
pub fn f64_display_stub(_v: &f64, _f: &mut std::fmt::Formatter<'_>) -> std::fmt::Result {
    Ok(())
}
static mut DUMMY_RE: std::mem::MaybeUninit<regex::Regex> = std::mem::MaybeUninit::uninit();
pub fn re_deref_stub(_s: &crate::dlt::RE_NEW_LINE) -> &regex::Regex {
    unsafe { &*std::ptr::addr_of!(DUMMY_RE).cast::<regex::Regex>() }
}

/// expected canonical text of one argument into out[..]; returns its length
/// kinds: 0 bool, 1 u8, 2 i8, 3 empty raw, 4 empty UTF-8 string, 5 UTF-8 string holding only the NUL terminator
fn expect_text(kind: u8, v: u8, out: &mut [u8; 5]) -> usize {
    match kind {
        0 => {
            let s: &[u8] = if v > 0 { b"true" } else { b"false" };
            let mut i = 0;
            while i < s.len() {
                out[i] = s[i];
                i += 1;
            }
            s.len()
        }
        1 | 2 => {
            // decimal, no leading zeros, '-' for negative
            let mut n = 0;
            let mut mag: u16 = v as u16;
            if kind == 2 && (v as i8) < 0 {
                out[0] = b'-';
                n = 1;
                mag = (-(v as i8 as i16)) as u16;
            }
            if mag >= 100 {
                out[n] = b'0' + (mag / 100) as u8;
                n += 1;
            }
            if mag >= 10 {
                out[n] = b'0' + ((mag / 10) % 10) as u8;
                n += 1;
            }
            out[n] = b'0' + (mag % 10) as u8;
            n + 1
        }
        _ => 0,
    }
}

fn text_args<const K: usize>(kinds: [u8; K]) {
    let vals: [u8; K] = kani::any();
    let big: bool = kani::any();
    let nul = [0u8; 1];
    let empty: [u8; 0] = [];
    let mk = |i: usize| -> DltArg<'_> {
        let (ti, raw): (u32, &[u8]) = match kinds[i] {
            0 => (DLT_TYPE_INFO_BOOL | DLT_TYLE_8BIT as u32, &vals[i..i + 1]),
            1 => (DLT_TYPE_INFO_UINT | DLT_TYLE_8BIT as u32, &vals[i..i + 1]),
            2 => (DLT_TYPE_INFO_SINT | DLT_TYLE_8BIT as u32, &vals[i..i + 1]),
            3 => (DLT_TYPE_INFO_RAWD, &empty),
            4 => (DLT_TYPE_INFO_STRG | DLT_SCOD_UTF8, &empty),
            _ => (DLT_TYPE_INFO_STRG | DLT_SCOD_UTF8, &nul),
        };
        DltArg { type_info: ti, is_big_endian: big, payload_raw: raw }
    };
    // arguments are produced one by one by a closure (an array::IntoIter moves them through ptr::read, after which CBMC no
    // longer knows the type info is a constant and explores every rendering branch incl. u128/float formatting: > 15 min)
    let mut produced = 0usize;
    let args = std::iter::from_fn(|| {
        if produced < K {
            produced += 1;
            Some(mk(produced - 1))
        } else {
            None
        }
    });
    let mut text = String::with_capacity(32);
    let r = DltMessage::process_msg_arg_iter(args, &mut text);
    assert!(r.is_ok());
    // expected: canonical texts joined by exactly one space (none at the ends, one per argument boundary even if empty)
    let mut exp = [0u8; 24];
    let mut n = 0;
    let mut i = 0;
    while i < K {
        if i > 0 {
            exp[n] = b' ';
            n += 1;
        }
        let mut one = [0u8; 5];
        let l = expect_text(kinds[i], vals[i], &mut one);
        let mut j = 0;
        while j < l {
            exp[n] = one[j];
            n += 1;
            j += 1;
        }
        i += 1;
    }
    let got = text.as_bytes();
    assert_eq!(got.len(), n);
    let w: usize = kani::any();
    if w < n {
        assert_eq!(got[w], exp[w]);
    }
    kani::cover!(n > 0, "non-empty text");
    std::mem::forget(text);
}

macro_rules! text_h {
    ($name:ident, $k:expr, $kinds:expr) => {
        #[kani::proof]
        #[kani::unwind(8)]
        #[kani::stub(encoding_rs::Encoding::decode_without_bom_handling, decode_stub)]
        #[kani::stub(regex::Regex::replace_all, replace_all_stub)]
        #[kani::stub(<crate::dlt::RE_NEW_LINE as std::ops::Deref>::deref, re_deref_stub)]
        #[kani::stub(<f32 as std::fmt::Display>::fmt, f32_display_stub)]
        #[kani::stub(<f64 as std::fmt::Display>::fmt, f64_display_stub)]
        fn $name() {
            text_args::<$k>($kinds);
        }
    };
}
text_h!(c18_v3_text_bool, 1, [0]);
text_h!(c18_v3_text_u8, 1, [1]);
text_h!(c18_v3_text_i8, 1, [2]);
text_h!(c18_v3_text_u8_bool, 2, [1, 0]);
text_h!(c18_v3_text_emptyraw_u8, 2, [3, 1]);
text_h!(c18_v3_text_emptystr_bool, 2, [4, 0]);
text_h!(c18_v3_text_nulstr_i8, 2, [5, 2]);
text_h!(c18_v3_text_bool_emptyraw_u8, 3, [0, 3, 1]);
text_h!(c18_v3_text_emptyraw_emptystr_u8, 3, [3, 4, 1]);
