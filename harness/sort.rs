// C10 — utils::buffer_sort_messages (time sorting), child module of utils.
// The function's parameters (std::sync::mpsc::Receiver: kani-compiler ICE; evmap::ReadHandle: not constructible under Kani) and its
// std HashMap/BTreeMap (hashing + node code: CBMC did not finish 2 messages) are the obstacles, its logic is not. The cut
// `extract_sorter` (props/cuts.py) therefore pastes the function's CURRENT body verbatim as `verif_sort_messages` with exactly these
// textual substitutions: Receiver<DltMessage> -> Vec<DltMessage>, &evmap::ReadHandle<..> -> &VerifLcTable (read()/get_one() model:
// a constant 2-entry table), std HashMap / BTreeMap -> VerifVecMap (fixed-array association list with the same get/insert/entry/iter
// contract), BinaryHeap capacity 1 Mi -> 4. Everything else - calculated time, capping, per-ECU delay windows, release rule,
// final drain, SortedDltMessage's Ord, std's BinaryHeap and VecDeque - is the real code.
// Natively (concrete playback) `sorter_env` drives the REAL buffer_sort_messages with a real channel and a real evmap table.
use super::*;
use crate::dlt::{DltChar4, DltExtendedHeader, DltStandardHeader};
use crate::lifecycle::{Lifecycle, LifecycleId};

// ---- models used by the extracted copy ----
pub struct VerifLcItem {
    pub start_time: u64,
}
pub struct VerifLcTable {
    pub ids: [LifecycleId; 2],
    pub starts: [u64; 2],
}
impl VerifLcTable {
    pub fn read(&self) -> Option<&VerifLcTable> {
        Some(self)
    }
    pub fn get_one(&self, id: &LifecycleId) -> Option<VerifLcItem> {
        if *id == self.ids[0] {
            Some(VerifLcItem { start_time: self.starts[0] })
        } else if *id == self.ids[1] {
            Some(VerifLcItem { start_time: self.starts[1] })
        } else {
            None
        }
    }
}
const CAP: usize = 3; // 2 ECUs / 3 lifecycle ids occur in the harness; a 4th key would fail the assert in or_insert_with/insert
/// association list in a fixed array (a Vec-backed list made CBMC explode on iter().max_by_key)
pub struct VerifVecMap<K, V> {
    s: [Option<(K, V)>; CAP],
}
pub struct VerifEntry<'a, K, V> {
    m: &'a mut VerifVecMap<K, V>,
    k: K,
}
impl<K: PartialEq + Copy, V> VerifVecMap<K, V> {
    pub fn new() -> Self {
        VerifVecMap { s: [None, None, None] }
    }
    fn pos(&self, k: &K) -> Option<usize> {
        let mut i = 0;
        while i < CAP {
            if let Some(e) = &self.s[i] {
                if e.0 == *k {
                    return Some(i);
                }
            }
            i += 1;
        }
        None
    }
    fn free(&self) -> usize {
        let mut i = 0;
        while i < CAP {
            if self.s[i].is_none() {
                return i;
            }
            i += 1;
        }
        panic!("VerifVecMap: more keys than the harness uses");
    }
    pub fn get(&self, k: &K) -> Option<&V> {
        match self.pos(k) {
            Some(i) => Some(&self.s[i].as_ref().unwrap().1),
            None => None,
        }
    }
    pub fn insert(&mut self, k: K, val: V) -> Option<V> {
        match self.pos(&k) {
            Some(i) => Some(std::mem::replace(&mut self.s[i].as_mut().unwrap().1, val)),
            None => {
                let i = self.free();
                self.s[i] = Some((k, val));
                None
            }
        }
    }
    pub fn entry(&mut self, k: K) -> VerifEntry<'_, K, V> {
        VerifEntry { m: self, k }
    }
    pub fn iter(&self) -> impl Iterator<Item = (&K, &V)> {
        self.s.iter().flatten().map(|e| (&e.0, &e.1))
    }
}
impl<'a, K: PartialEq + Copy, V> VerifEntry<'a, K, V> {
    pub fn or_insert_with<F: FnOnce() -> V>(self, f: F) -> &'a mut V {
        let i = match self.m.pos(&self.k) {
            Some(i) => i,
            None => {
                let i = self.m.free();
                self.m.s[i] = Some((self.k, f()));
                i
            }
        };
        &mut self.m.s[i].as_mut().unwrap().1
    }
}

// ---- harness ----
const NMAX: usize = 4;
#[derive(Clone, Copy, PartialEq, Debug)]
struct Spec {
    rcv: u64,
    ts: u32,
    lc_slot: u8, // 0 / 1: table entries, 2: id not in the table (start time 0)
    ecu_sel: bool,
    ext: Option<u8>, // verb_mstp_mtin of the extended header (control request = 0x16 | verbose bit)
    htyp: u8,
}
static mut OUT: [Option<Spec>; NMAX] = [None; NMAX];
static mut OUT_INDEX: [u32; NMAX] = [0; NMAX];
static mut OUT_N: usize = 0;

fn ecu_of(sel: bool) -> DltChar4 {
    DltChar4::from_buf(if sel { b"ECU2" } else { b"ECU1" })
}
fn to_msg(index: u32, s: &Spec, ids: &[LifecycleId; 3]) -> DltMessage {
    DltMessage {
        index,
        reception_time_us: s.rcv,
        ecu: ecu_of(s.ecu_sel),
        timestamp_dms: s.ts,
        standard_header: DltStandardHeader { htyp: s.htyp, mcnt: 0, len: 4 },
        extended_header: s.ext.map(|v| DltExtendedHeader { verb_mstp_mtin: v, noar: 0, apid: DltChar4::from_buf(b"APID"), ctid: DltChar4::from_buf(b"CTID") }),
        payload: Vec::new(),
        payload_text: None,
        lifecycle: ids[s.lc_slot as usize],
    }
}
fn record(m: DltMessage, ids: &[LifecycleId; 3]) {
    let slot = if m.lifecycle == ids[0] { 0 } else if m.lifecycle == ids[1] { 1 } else { 2 };
    // any other change to the message shows up as a mismatch with its Spec
    let ok_rest = m.payload.is_empty() && m.payload_text.is_none() && m.standard_header.mcnt == 0 && m.standard_header.len == 4 && (m.lifecycle == ids[slot]);
    let s = Spec {
        rcv: m.reception_time_us,
        ts: m.timestamp_dms,
        lc_slot: if ok_rest { slot as u8 } else { 0xff },
        ecu_sel: m.ecu == ecu_of(true),
        ext: m.extended_header.as_ref().map(|e| e.verb_mstp_mtin),
        htyp: m.standard_header.htyp,
    };
    unsafe {
        if OUT_N < NMAX {
            OUT[OUT_N] = Some(s);
            OUT_INDEX[OUT_N] = m.index;
        }
        OUT_N += 1;
    }
    std::mem::forget(m);
}

/// KANI: the extracted copy of the function's body over the models
fn sorter_model(specs: &[Spec], starts: [u64; 2], w: u8, d: u64) -> bool {
    let ids: [LifecycleId; 3] = [1, 2, 3];
    let mut inflow: Vec<DltMessage> = Vec::with_capacity(NMAX);
    let mut i = 0;
    while i < specs.len() {
        inflow.push(to_msg(i as u32, &specs[i], &ids));
        i += 1;
    }
    let table = VerifLcTable { ids: [ids[0], ids[1]], starts };
    let res = verif_sort_messages(
        inflow,
        &|m| {
            record(m, &ids);
            Ok(())
        },
        &table,
        w,
        d,
    );
    res.is_ok()
}

/// NATIVE (concrete playback; replaced by sorter_model under Kani): the real buffer_sort_messages, real channel, real evmap table
fn sorter_env(specs: &[Spec], starts: [u64; 2], w: u8, d: u64) -> bool {
    let mut dummy = to_msg(0, &Spec { rcv: 0, ts: 0, lc_slot: 0, ecu_sel: false, ext: None, htyp: 0 }, &[0, 0, 0]);
    let mut la = Lifecycle::new(&mut dummy);
    let mut lb = Lifecycle::new(&mut dummy);
    la.start_time = starts[0];
    lb.start_time = starts[1];
    let ids: [LifecycleId; 3] = [la.id(), lb.id(), u32::MAX - 7];
    let (lcs_r, mut lcs_w) = evmap::new::<LifecycleId, crate::lifecycle::LifecycleItem>();
    lcs_w.insert(ids[0], la);
    lcs_w.insert(ids[1], lb);
    lcs_w.refresh();
    let (tx, rx) = std::sync::mpsc::channel();
    for (i, s) in specs.iter().enumerate() {
        tx.send(to_msg(i as u32, s, &ids)).unwrap();
    }
    drop(tx);
    let res = buffer_sort_messages(
        rx,
        &|m| {
            record(m, &ids);
            Ok(())
        },
        &lcs_r,
        w,
        d,
    );
    res.is_ok()
}

const LIM: u64 = 1 << 60;

fn is_ctrl_request(s: &Spec) -> bool {
    match s.ext {
        Some(v) => (v >> 1) & 0x07 == 3 && v >> 4 == 1,
        None => false,
    }
}
/// the property's "calculated time"
fn calc(s: &Spec, starts: &[u64; 2]) -> u64 {
    if is_ctrl_request(s) {
        s.rcv
    } else {
        let st = if s.lc_slot < 2 { starts[s.lc_slot as usize] } else { 0 };
        let c = st + s.ts as u64 * 100;
        if c > s.rcv {
            s.rcv
        } else {
            c
        }
    }
}

fn sort_shape<const N: usize, const W: u8>() {
    let mut specs = [Spec { rcv: 0, ts: 0, lc_slot: 0, ecu_sel: false, ext: None, htyp: 0 }; N];
    let starts: [u64; 2] = [kani::any(), kani::any()];
    kani::assume(starts[0] < LIM && starts[1] < LIM);
    let d: u64 = kani::any();
    kani::assume(d <= 1 << 40);
    let mut i = 0;
    while i < N {
        let s = Spec {
            rcv: kani::any(),
            ts: kani::any(),
            lc_slot: kani::any(),
            ecu_sel: kani::any(),
            ext: if kani::any() { Some(kani::any()) } else { None },
            htyp: kani::any(),
        };
        kani::assume(s.rcv < LIM && s.lc_slot <= 2);
        specs[i] = s;
        i += 1;
    }
    unsafe {
        OUT_N = 0;
        OUT = [None; NMAX];
    }
    let ok = sorter_env(&specs[..], starts, W, d);
    assert!(ok);
    // (1) permutation, nothing altered: every input once, unchanged
    let n_out = unsafe { OUT_N };
    assert_eq!(n_out, N);
    let mut seen = [false; N];
    let mut k = 0;
    while k < N {
        let idx = unsafe { OUT_INDEX[k] } as usize;
        assert!(idx < N);
        assert!(!seen[idx]);
        seen[idx] = true;
        let o = unsafe { OUT[k] }.unwrap();
        let e = &specs[idx];
        assert!(o.rcv == e.rcv && o.ts == e.ts && o.lc_slot == e.lc_slot && o.ecu_sel == e.ecu_sel && o.ext == e.ext && o.htyp == e.htyp);
        k += 1;
    }
    // (2) ordered by calculated time (ties: original order) under the property's premise
    let mut premise = true;
    let mut i = 0;
    while i < N {
        if i > 0 && specs[i].rcv < specs[i - 1].rcv {
            premise = false;
        }
        if specs[i].rcv - calc(&specs[i], &starts) > d {
            premise = false;
        }
        i += 1;
    }
    let mut reordered = false;
    if premise {
        let mut k = 1;
        while k < N {
            let (ia, ib) = unsafe { (OUT_INDEX[k - 1] as usize, OUT_INDEX[k] as usize) };
            let (ca, cb) = (calc(&specs[ia], &starts), calc(&specs[ib], &starts));
            assert!(ca < cb || (ca == cb && ia < ib));
            if ia > ib {
                reordered = true;
            }
            k += 1;
        }
    }
    kani::cover!(premise && reordered, "premise holds and the sorter had to reorder");
    kani::cover!(!premise, "premise violated (only the permutation part applies)");
}

macro_rules! sort_h {
    ($name:ident, $n:expr, $w:expr, $unw:expr) => {
        #[kani::proof]
        #[kani::unwind($unw)]
        #[kani::stub(sorter_env, sorter_model)]
        fn $name() {
            sort_shape::<$n, $w>();
        }
    };
}
sort_h!(c10_sort_n2_w1, 2, 1, 6);
sort_h!(c10_sort_n2_w3, 2, 3, 6);
sort_h!(c10_sort_n3_w1, 3, 1, 7);
sort_h!(c10_sort_n3_w2, 3, 2, 7);
sort_h!(c10_sort_n3_w3, 3, 3, 7);
sort_h!(c10_sort_n4_w2, 4, 2, 8);

/// SortedDltMessage: the heap's order is total and is exactly (calculated time, index)
#[kani::proof]
fn c10_sorted_msg_order() {
    let ids: [LifecycleId; 3] = [1, 2, 3];
    let base = Spec { rcv: kani::any(), ts: kani::any(), lc_slot: 0, ecu_sel: false, ext: None, htyp: 0 };
    let (ia, ib): (u32, u32) = (kani::any(), kani::any());
    let a = SortedDltMessage { m: to_msg(ia, &base, &ids), calculated_time_us: kani::any() };
    let b = SortedDltMessage { m: to_msg(ib, &base, &ids), calculated_time_us: kani::any() };
    let expect = (a.calculated_time_us, ia).cmp(&(b.calculated_time_us, ib));
    assert_eq!(a.cmp(&b), expect);
    assert_eq!(a.partial_cmp(&b), Some(expect));
    assert_eq!(b.cmp(&a), expect.reverse());
    assert_eq!(a == b, expect == std::cmp::Ordering::Equal);
    kani::cover!(expect == std::cmp::Ordering::Less && a.calculated_time_us == b.calculated_time_us, "tie decided by index");
    std::mem::forget(a);
    std::mem::forget(b);
}
