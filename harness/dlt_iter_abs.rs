// C01-L3' — iterator plumbing against PARSER CONTRACT MODELS (child module of utils::dltmessageiterator).
// The real DltMessageIterator::next runs over a buffer whose message positions are a symbolic script; the two frame parsers
// are replaced (#[kani::stub]) by models of exactly what L1/L2 establish about them on marker-clean input:
//   "Ok((len, msg)) iff a message of that framing starts at offset 0 of the data (and fits), NotEnoughData below the minimal
//    size, InvalidData otherwise".
// So the (expensive) parsers are out of the query and the iterator's loop can be run over WHOLE streams: several messages,
// garbage runs of any length before / between / after them, every framing-flag start state. Added after seeded change C01-2.
use super::*;
use crate::dlt::{DltChar4, DltStandardHeader, Error, ErrorKind};

const N: usize = 9; // stream length (30: > 24 GB; 12: 8-22 min per instance)
static mut TOTAL: usize = N;
static mut IS_MSG: [bool; N] = [false; N];
static mut STORAGE_FRAMING: bool = true;

// model message sizes, scaled down with N (the iterator never looks at sizes itself, only at the parsers' verdict kinds):
// the storage framing's minimal message is the longer one, as in reality (20 vs 8)
const ST_LEN: usize = 4;
const SE_LEN: usize = 2;

fn mk(index: u32, off: usize) -> DltMessage {
    DltMessage {
        index,
        reception_time_us: 0,
        ecu: DltChar4::from_buf(b"ECU1"),
        timestamp_dms: off as u32, // tag: where in the stream this message started
        standard_header: DltStandardHeader { htyp: 0x20, mcnt: 0, len: 4 },
        extended_header: None,
        payload: Vec::new(),
        payload_text: None,
        lifecycle: 0,
    }
}

pub fn storage_model(index: u32, data: &[u8]) -> Result<(usize, DltMessage), Error> {
    let off = unsafe { TOTAL } - data.len();
    if data.len() < ST_LEN {
        Err(Error::new(ErrorKind::NotEnoughData(ST_LEN - data.len())))
    } else if unsafe { STORAGE_FRAMING && IS_MSG[off] } {
        Ok((ST_LEN, mk(index, off)))
    } else {
        Err(Error::new(ErrorKind::InvalidData(String::new())))
    }
}
pub fn serial_model(index: u32, data: &[u8]) -> Result<(usize, DltMessage), Error> {
    let off = unsafe { TOTAL } - data.len();
    if data.len() < SE_LEN {
        Err(Error::new(ErrorKind::NotEnoughData(ST_LEN - data.len())))
    } else if unsafe { !STORAGE_FRAMING && IS_MSG[off] } {
        Ok((SE_LEN, mk(index, off)))
    } else {
        Err(Error::new(ErrorKind::InvalidData(String::new())))
    }
}

/// mode: 0 nothing detected yet, 1 storage detected, 2 serial detected (the flag of the OTHER framing is never set
/// on a one-framing stream; mode 1 requires storage framing, mode 2 serial framing)
fn stream(storage: bool, mode: u8) {
    let mlen = if storage { ST_LEN } else { SE_LEN };
    let script: [bool; N] = kani::any();
    // messages do not overlap and fit
    let mut i = 0;
    while i < N {
        if script[i] {
            kani::assume(i + mlen <= N);
            let mut j = i + 1;
            while j < i + mlen {
                kani::assume(!script[j]);
                j += 1;
            }
        }
        i += 1;
    }
    unsafe {
        TOTAL = N;
        IS_MSG = script;
        STORAGE_FRAMING = storage;
    }
    let start: u32 = kani::any();
    let (bp, bs): (usize, usize) = (kani::any(), kani::any());
    kani::assume(start < u32::MAX - 8 && bs <= bp && bp < usize::MAX / 2);
    // native replay (concrete playback runs WITHOUT the stubs): translate the script into a real byte stream and check the
    // real iterator with the real parsers against the same reference walk; under Kani this call is stubbed to `false`
    if native_cross_check(&script, storage, mode, start, bp, bs) {
        return;
    }
    let data = [0u8; N];
    let mut it = DltMessageIterator::new(start, &data[..]);
    it.detected_storage_header = mode == 1;
    it.detected_serial_header = mode == 2;
    it.bytes_processed = bp;
    it.bytes_skipped = bs;
    let (yielded, skipped) = walk_and_check(&mut it, &script, N, storage, mode, mlen, if storage { ST_LEN } else { SE_LEN }, ST_LEN, SE_LEN, start, bp, bs);
    kani::cover!(yielded >= 2 && skipped >= 1, "two messages and garbage");
    kani::cover!(yielded >= 1 && script[3] && !script[0] && !script[1] && !script[2], "odd garbage run (3 bytes) before the first message");
    kani::cover!(yielded == 0 && skipped > 0, "only garbage");
}

/// reference walk over the stream + assertions on every next(); `script[p]` = a message of the framing starts at p
#[allow(clippy::too_many_arguments)]
fn walk_and_check<R: std::io::BufRead>(it: &mut DltMessageIterator<'_, R>, script: &[bool], n: usize, storage: bool, mode: u8, mlen: usize,
    _own_min: usize, st_min: usize, se_min: usize, start: u32, bp: usize, bs: usize) -> (u32, usize) {
    let mut pos = 0usize;
    let mut yielded = 0u32;
    let mut skipped = 0usize;
    let mut detected = mode != 0;
    let mut rounds = 0;
    while rounds < n / se_min + 2 {
        // fewer bytes left than this: the iterator gives up (storage framing once detected needs a full storage message)
        let stop_below = if storage && detected { st_min } else { se_min };
        let mut p = pos;
        let mut found = false;
        while p < n {
            if n - p < stop_below {
                break;
            }
            if script[p] {
                found = true;
                break;
            }
            p += 1;
        }
        let m = it.next();
        if found {
            assert!(m.is_some()); // every message is found ...
            let m = m.unwrap();
            assert_eq!(m.index, start + yielded); // ... numbered consecutively
            skipped += p - pos;
            pos = p + mlen;
            yielded += 1;
            detected = true;
            assert_eq!(it.bytes_processed, bp + pos); // ... in stream order, none invented, none skipped
            assert_eq!(it.bytes_skipped, bs + skipped); // skipped = exactly the garbage
            assert_eq!(it.detected_storage_header, storage);
            assert_eq!(it.detected_serial_header, !storage);
            std::mem::forget(m);
        } else {
            assert!(m.is_none());
            // trailing garbage is skipped only while a minimal message could still follow
            skipped += p - pos;
            pos = p;
            assert_eq!(it.bytes_processed, bp + pos);
            assert_eq!(it.bytes_skipped, bs + skipped);
            assert!(it.bytes_processed - bp <= n); // never more than the input
            break;
        }
        rounds += 1;
    }
    assert_eq!(it.index, start + yielded);
    (yielded, skipped)
}

/// NATIVE ONLY (stubbed to `false` under Kani): same statement on a real byte stream with real minimal messages
fn native_cross_check(script: &[bool; N], storage: bool, mode: u8, start: u32, bp: usize, bs: usize) -> bool {
    let (model_len, real_len) = if storage { (ST_LEN, 20usize) } else { (SE_LEN, 8usize) };
    let mut real: Vec<u8> = Vec::new();
    let mut real_script: Vec<bool> = Vec::new();
    let mut i = 0;
    while i < N {
        if script[i] {
            let at = real.len();
            if storage {
                real.extend_from_slice(&[b'D', b'L', b'T', 1, 0, 0, 0, 0, 0, 0, 0, 0, b'E', b'C', b'U', b'1', 0x20, 7, 0, 4]);
            } else {
                real.extend_from_slice(&[b'D', b'L', b'S', 1, 0x20, 7, 0, 4]);
            }
            real_script.resize(at, false);
            real_script.push(true);
            i += model_len;
        } else {
            real.push(0xaa); // garbage
            i += 1;
        }
    }
    real_script.resize(real.len(), false);
    let n = real.len();
    let mut it = DltMessageIterator::new(start, &real[..]);
    it.detected_storage_header = mode == 1;
    it.detected_serial_header = mode == 2;
    it.bytes_processed = bp;
    it.bytes_skipped = bs;
    let _ = walk_and_check(&mut it, &real_script, n, storage, mode, real_len, real_len, 20, 8, start, bp, bs);
    true
}
fn native_cross_check_model(_script: &[bool; N], _storage: bool, _mode: u8, _start: u32, _bp: usize, _bs: usize) -> bool {
    false
}

macro_rules! abs_h {
    ($name:ident, $storage:expr, $mode:expr) => {
        #[kani::proof]
        #[kani::unwind(12)]
        #[kani::stub(crate::dlt::parse_dlt_with_storage_header, storage_model)]
        #[kani::stub(crate::dlt::parse_dlt_with_serial_header, serial_model)]
        #[kani::stub(native_cross_check, native_cross_check_model)]
        fn $name() {
            stream($storage, $mode);
        }
    };
}
abs_h!(c01_abs_storage_undetected, true, 0);
abs_h!(c01_abs_storage_detected, true, 1);
abs_h!(c01_abs_serial_undetected, false, 0);
abs_h!(c01_abs_serial_detected, false, 2);
