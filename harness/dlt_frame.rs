// C01 / C03-U1 / C04-B2 — the two frame parsers (child module of `dlt`).
// Shapes (framing, header-flag combination, payload length, tail length) are concrete, every byte value is symbolic.
use super::*;

pub fn fmt_stub(_args: std::fmt::Arguments<'_>) -> String {
    String::new()
}

const F_EXT: u8 = 1;
const F_WEID: u8 = 4;
const F_WSID: u8 = 8;
const F_WTMS: u8 = 16;

const fn hdr_size(flags: u8) -> usize {
    4 + if flags & F_WEID != 0 { 4 } else { 0 }
        + if flags & F_WSID != 0 { 4 } else { 0 }
        + if flags & F_WTMS != 0 { 4 } else { 0 }
        + if flags & F_EXT != 0 { 10 } else { 0 }
}

fn set_marker(data: &mut [u8], at: usize, storage: bool) {
    data[at] = b'D';
    data[at + 1] = b'L';
    data[at + 2] = if storage { b'T' } else { b'S' };
    data[at + 3] = 1;
}

fn no_marker_at(data: &[u8], i: usize) -> bool {
    !is_storage_header_pattern(&data[i..i + 4]) && !is_serial_header_pattern(&data[i..i + 4])
}

/// L1 accept: buffer = one well-formed message of the given shape + `tail` arbitrary bytes (optionally containing the
/// next message's marker after `gap` garbage bytes); neither marker at any other offset (all 4-byte windows, also those straddling the
/// message end). The parser returns exactly this message: length, index, every header field, payload.
fn accept<const N: usize>(storage: bool, flags: u8, plen: usize, tail: usize, next_is_msg: bool, gap: usize) {
    let mut data: [u8; N] = kani::any();
    let free: u8 = kani::any(); // endian bit + version bits are free
    let htyp = (free & 0xe2) | flags;
    let sh = if storage { DLT_STORAGE_HEADER_SIZE } else { DLT_SERIAL_HEADER_SIZE };
    let hdr = hdr_size(flags);
    let mlen = sh + hdr + plen;
    assert!(mlen + tail == N);
    set_marker(&mut data, 0, storage);
    data[sh] = htyp;
    data[sh + 2] = ((hdr + plen) >> 8) as u8;
    data[sh + 3] = ((hdr + plen) & 0xff) as u8;
    // the next message's marker follows after `gap` garbage bytes (gap = 0: directly)
    if next_is_msg {
        assert!(tail >= gap + 4);
        set_marker(&mut data, mlen + gap, storage);
    }
    let mut i = 1;
    while i + 4 <= N {
        if !(next_is_msg && i == mlen + gap) {
            kani::assume(no_marker_at(&data, i));
        }
        i += 1;
    }
    let index: u32 = kani::any();
    let r = if storage { parse_dlt_with_storage_header(index, &data) } else { parse_dlt_with_serial_header(index, &data) };
    assert!(r.is_ok());
    let (consumed, m) = r.unwrap();
    assert_eq!(consumed, mlen);
    assert_eq!(m.index, index);
    assert_eq!(m.lifecycle, 0);
    assert!(m.payload_text.is_none());
    assert_eq!(m.standard_header.htyp, htyp);
    assert_eq!(m.standard_header.mcnt, data[sh + 1]);
    assert_eq!(m.standard_header.len as usize, hdr + plen);
    assert_eq!(m.is_big_endian(), htyp & 2 != 0);
    // reception time
    if storage {
        let secs = u32::from_le_bytes([data[4], data[5], data[6], data[7]]) as u64;
        let micros = u32::from_le_bytes([data[8], data[9], data[10], data[11]]) as u64;
        assert_eq!(m.reception_time_us, secs * 1_000_000 + micros);
    }
    // ECU: standard-header ECU wins over the storage-header one
    let mut off = sh + 4;
    let ecu = m.ecu.as_buf();
    if flags & F_WEID != 0 {
        assert!(ecu[0] == data[off] && ecu[1] == data[off + 1] && ecu[2] == data[off + 2] && ecu[3] == data[off + 3]);
        off += 4;
    } else if storage {
        assert!(ecu[0] == data[12] && ecu[1] == data[13] && ecu[2] == data[14] && ecu[3] == data[15]);
    } else {
        assert!(ecu[0] == b'D' && ecu[1] == b'L' && ecu[2] == b'S' && ecu[3] == 0);
    }
    if flags & F_WSID != 0 {
        off += 4;
    }
    if flags & F_WTMS != 0 {
        assert_eq!(m.timestamp_dms, u32::from_be_bytes([data[off], data[off + 1], data[off + 2], data[off + 3]]));
        off += 4;
    } else {
        assert_eq!(m.timestamp_dms, 0);
    }
    assert_eq!(m.standard_header.has_timestamp(), flags & F_WTMS != 0);
    match &m.extended_header {
        Some(e) => {
            assert!(flags & F_EXT != 0);
            assert_eq!(e.verb_mstp_mtin, data[off]);
            assert_eq!(e.noar, data[off + 1]);
            let (a, c) = (e.apid.as_buf(), e.ctid.as_buf());
            assert!(a[0] == data[off + 2] && a[1] == data[off + 3] && a[2] == data[off + 4] && a[3] == data[off + 5]);
            assert!(c[0] == data[off + 6] && c[1] == data[off + 7] && c[2] == data[off + 8] && c[3] == data[off + 9]);
            off += 10;
        }
        None => assert!(flags & F_EXT == 0),
    }
    assert_eq!(off, sh + hdr);
    assert_eq!(m.payload.len(), plen);
    let j: usize = kani::any();
    if j < plen {
        assert_eq!(m.payload[j], data[off + j]);
    }
    kani::cover!(htyp & 2 != 0, "big endian payload flag");
    std::mem::forget(m);
}

macro_rules! accept_h {
    ($name:ident, $n:expr, $storage:expr, $flags:expr, $plen:expr, $tail:expr, $next:expr, $gap:expr) => {
        #[kani::proof]
        #[kani::unwind(64)]
        #[kani::stub(alloc::fmt::format, fmt_stub)]
        fn $name() {
            accept::<$n>($storage, $flags, $plen, $tail, $next, $gap);
        }
    };
}
// @generated accept shapes (bin/gen_dlt_shapes.py)
//@ACCEPT@
accept_h!(c01_acc_st_f00_p0_t0, 20, true, 0, 0, 0, false, 0);
accept_h!(c01_acc_st_f00_p0_t3, 23, true, 0, 0, 3, false, 0);
accept_h!(c01_acc_st_f00_p0_t5, 25, true, 0, 0, 5, false, 0);
accept_h!(c01_acc_st_f00_p0_t5n, 25, true, 0, 0, 5, true, 0);
accept_h!(c01_acc_st_f00_p0_t8, 28, true, 0, 0, 8, false, 0);
accept_h!(c01_acc_st_f00_p0_t8n, 28, true, 0, 0, 8, true, 0);
accept_h!(c01_acc_st_f00_p1_t0, 21, true, 0, 1, 0, false, 0);
accept_h!(c01_acc_st_f00_p1_t3, 24, true, 0, 1, 3, false, 0);
accept_h!(c01_acc_st_f00_p1_t5, 26, true, 0, 1, 5, false, 0);
accept_h!(c01_acc_st_f00_p1_t5n, 26, true, 0, 1, 5, true, 0);
accept_h!(c01_acc_st_f00_p1_t8, 29, true, 0, 1, 8, false, 0);
accept_h!(c01_acc_st_f00_p1_t8n, 29, true, 0, 1, 8, true, 0);
accept_h!(c01_acc_st_f00_p2_t0, 22, true, 0, 2, 0, false, 0);
accept_h!(c01_acc_st_f00_p2_t3, 25, true, 0, 2, 3, false, 0);
accept_h!(c01_acc_st_f00_p2_t5, 27, true, 0, 2, 5, false, 0);
accept_h!(c01_acc_st_f00_p2_t5n, 27, true, 0, 2, 5, true, 0);
accept_h!(c01_acc_st_f00_p2_t8, 30, true, 0, 2, 8, false, 0);
accept_h!(c01_acc_st_f00_p2_t8n, 30, true, 0, 2, 8, true, 0);
accept_h!(c01_acc_st_f00_p5_t0, 25, true, 0, 5, 0, false, 0);
accept_h!(c01_acc_st_f00_p5_t3, 28, true, 0, 5, 3, false, 0);
accept_h!(c01_acc_st_f00_p5_t5, 30, true, 0, 5, 5, false, 0);
accept_h!(c01_acc_st_f00_p5_t5n, 30, true, 0, 5, 5, true, 0);
accept_h!(c01_acc_st_f00_p5_t8, 33, true, 0, 5, 8, false, 0);
accept_h!(c01_acc_st_f00_p5_t8n, 33, true, 0, 5, 8, true, 0);
accept_h!(c01_acc_st_f01_p0_t0, 30, true, 1, 0, 0, false, 0);
accept_h!(c01_acc_st_f01_p2_t5n, 37, true, 1, 2, 5, true, 0);
accept_h!(c01_acc_st_f04_p0_t0, 24, true, 4, 0, 0, false, 0);
accept_h!(c01_acc_st_f04_p2_t5n, 31, true, 4, 2, 5, true, 0);
accept_h!(c01_acc_st_f05_p0_t0, 34, true, 5, 0, 0, false, 0);
accept_h!(c01_acc_st_f05_p2_t5n, 41, true, 5, 2, 5, true, 0);
accept_h!(c01_acc_st_f08_p0_t0, 24, true, 8, 0, 0, false, 0);
accept_h!(c01_acc_st_f08_p2_t5n, 31, true, 8, 2, 5, true, 0);
accept_h!(c01_acc_st_f09_p0_t0, 34, true, 9, 0, 0, false, 0);
accept_h!(c01_acc_st_f09_p2_t5n, 41, true, 9, 2, 5, true, 0);
accept_h!(c01_acc_st_f0c_p0_t0, 28, true, 12, 0, 0, false, 0);
accept_h!(c01_acc_st_f0c_p1_t3, 32, true, 12, 1, 3, false, 0);
accept_h!(c01_acc_st_f0c_p2_t5n, 35, true, 12, 2, 5, true, 0);
accept_h!(c01_acc_st_f0d_p0_t0, 38, true, 13, 0, 0, false, 0);
accept_h!(c01_acc_st_f0d_p2_t5n, 45, true, 13, 2, 5, true, 0);
accept_h!(c01_acc_st_f10_p0_t0, 24, true, 16, 0, 0, false, 0);
accept_h!(c01_acc_st_f10_p2_t5n, 31, true, 16, 2, 5, true, 0);
accept_h!(c01_acc_st_f11_p0_t0, 34, true, 17, 0, 0, false, 0);
accept_h!(c01_acc_st_f11_p2_t5n, 41, true, 17, 2, 5, true, 0);
accept_h!(c01_acc_st_f11_p5_t8n, 47, true, 17, 5, 8, true, 0);
accept_h!(c01_acc_st_f14_p0_t0, 28, true, 20, 0, 0, false, 0);
accept_h!(c01_acc_st_f14_p2_t5n, 35, true, 20, 2, 5, true, 0);
accept_h!(c01_acc_st_f15_p0_t0, 38, true, 21, 0, 0, false, 0);
accept_h!(c01_acc_st_f15_p2_t5n, 45, true, 21, 2, 5, true, 0);
accept_h!(c01_acc_st_f18_p0_t0, 28, true, 24, 0, 0, false, 0);
accept_h!(c01_acc_st_f18_p2_t5n, 35, true, 24, 2, 5, true, 0);
accept_h!(c01_acc_st_f19_p0_t0, 38, true, 25, 0, 0, false, 0);
accept_h!(c01_acc_st_f19_p2_t5n, 45, true, 25, 2, 5, true, 0);
accept_h!(c01_acc_st_f1c_p0_t0, 32, true, 28, 0, 0, false, 0);
accept_h!(c01_acc_st_f1c_p2_t5n, 39, true, 28, 2, 5, true, 0);
accept_h!(c01_acc_st_f1d_p0_t0, 42, true, 29, 0, 0, false, 0);
accept_h!(c01_acc_st_f1d_p0_t3, 45, true, 29, 0, 3, false, 0);
accept_h!(c01_acc_st_f1d_p0_t5, 47, true, 29, 0, 5, false, 0);
accept_h!(c01_acc_st_f1d_p0_t5n, 47, true, 29, 0, 5, true, 0);
accept_h!(c01_acc_st_f1d_p0_t8, 50, true, 29, 0, 8, false, 0);
accept_h!(c01_acc_st_f1d_p0_t8n, 50, true, 29, 0, 8, true, 0);
accept_h!(c01_acc_st_f1d_p1_t0, 43, true, 29, 1, 0, false, 0);
accept_h!(c01_acc_st_f1d_p1_t3, 46, true, 29, 1, 3, false, 0);
accept_h!(c01_acc_st_f1d_p1_t5, 48, true, 29, 1, 5, false, 0);
accept_h!(c01_acc_st_f1d_p1_t5n, 48, true, 29, 1, 5, true, 0);
accept_h!(c01_acc_st_f1d_p1_t8, 51, true, 29, 1, 8, false, 0);
accept_h!(c01_acc_st_f1d_p1_t8n, 51, true, 29, 1, 8, true, 0);
accept_h!(c01_acc_st_f1d_p2_t0, 44, true, 29, 2, 0, false, 0);
accept_h!(c01_acc_st_f1d_p2_t3, 47, true, 29, 2, 3, false, 0);
accept_h!(c01_acc_st_f1d_p2_t5, 49, true, 29, 2, 5, false, 0);
accept_h!(c01_acc_st_f1d_p2_t5n, 49, true, 29, 2, 5, true, 0);
accept_h!(c01_acc_st_f1d_p2_t8, 52, true, 29, 2, 8, false, 0);
accept_h!(c01_acc_st_f1d_p2_t8n, 52, true, 29, 2, 8, true, 0);
accept_h!(c01_acc_st_f1d_p5_t0, 47, true, 29, 5, 0, false, 0);
accept_h!(c01_acc_st_f1d_p5_t3, 50, true, 29, 5, 3, false, 0);
accept_h!(c01_acc_st_f1d_p5_t5, 52, true, 29, 5, 5, false, 0);
accept_h!(c01_acc_st_f1d_p5_t5n, 52, true, 29, 5, 5, true, 0);
accept_h!(c01_acc_st_f1d_p5_t8, 55, true, 29, 5, 8, false, 0);
accept_h!(c01_acc_st_f1d_p5_t8n, 55, true, 29, 5, 8, true, 0);
accept_h!(c01_acc_se_f00_p0_t0, 8, false, 0, 0, 0, false, 0);
accept_h!(c01_acc_se_f00_p0_t3, 11, false, 0, 0, 3, false, 0);
accept_h!(c01_acc_se_f00_p0_t5, 13, false, 0, 0, 5, false, 0);
accept_h!(c01_acc_se_f00_p0_t5n, 13, false, 0, 0, 5, true, 0);
accept_h!(c01_acc_se_f00_p0_t8, 16, false, 0, 0, 8, false, 0);
accept_h!(c01_acc_se_f00_p0_t8n, 16, false, 0, 0, 8, true, 0);
accept_h!(c01_acc_se_f00_p1_t0, 9, false, 0, 1, 0, false, 0);
accept_h!(c01_acc_se_f00_p1_t3, 12, false, 0, 1, 3, false, 0);
accept_h!(c01_acc_se_f00_p1_t5, 14, false, 0, 1, 5, false, 0);
accept_h!(c01_acc_se_f00_p1_t5n, 14, false, 0, 1, 5, true, 0);
accept_h!(c01_acc_se_f00_p1_t8, 17, false, 0, 1, 8, false, 0);
accept_h!(c01_acc_se_f00_p1_t8n, 17, false, 0, 1, 8, true, 0);
accept_h!(c01_acc_se_f00_p2_t0, 10, false, 0, 2, 0, false, 0);
accept_h!(c01_acc_se_f00_p2_t3, 13, false, 0, 2, 3, false, 0);
accept_h!(c01_acc_se_f00_p2_t5, 15, false, 0, 2, 5, false, 0);
accept_h!(c01_acc_se_f00_p2_t5n, 15, false, 0, 2, 5, true, 0);
accept_h!(c01_acc_se_f00_p2_t8, 18, false, 0, 2, 8, false, 0);
accept_h!(c01_acc_se_f00_p2_t8n, 18, false, 0, 2, 8, true, 0);
accept_h!(c01_acc_se_f00_p5_t0, 13, false, 0, 5, 0, false, 0);
accept_h!(c01_acc_se_f00_p5_t3, 16, false, 0, 5, 3, false, 0);
accept_h!(c01_acc_se_f00_p5_t5, 18, false, 0, 5, 5, false, 0);
accept_h!(c01_acc_se_f00_p5_t5n, 18, false, 0, 5, 5, true, 0);
accept_h!(c01_acc_se_f00_p5_t8, 21, false, 0, 5, 8, false, 0);
accept_h!(c01_acc_se_f00_p5_t8n, 21, false, 0, 5, 8, true, 0);
accept_h!(c01_acc_se_f01_p0_t0, 18, false, 1, 0, 0, false, 0);
accept_h!(c01_acc_se_f01_p2_t5n, 25, false, 1, 2, 5, true, 0);
accept_h!(c01_acc_se_f04_p0_t0, 12, false, 4, 0, 0, false, 0);
accept_h!(c01_acc_se_f04_p2_t5n, 19, false, 4, 2, 5, true, 0);
accept_h!(c01_acc_se_f05_p0_t0, 22, false, 5, 0, 0, false, 0);
accept_h!(c01_acc_se_f05_p2_t5n, 29, false, 5, 2, 5, true, 0);
accept_h!(c01_acc_se_f08_p0_t0, 12, false, 8, 0, 0, false, 0);
accept_h!(c01_acc_se_f08_p2_t5n, 19, false, 8, 2, 5, true, 0);
accept_h!(c01_acc_se_f09_p0_t0, 22, false, 9, 0, 0, false, 0);
accept_h!(c01_acc_se_f09_p2_t5n, 29, false, 9, 2, 5, true, 0);
accept_h!(c01_acc_se_f0c_p0_t0, 16, false, 12, 0, 0, false, 0);
accept_h!(c01_acc_se_f0c_p2_t5n, 23, false, 12, 2, 5, true, 0);
accept_h!(c01_acc_se_f0d_p0_t0, 26, false, 13, 0, 0, false, 0);
accept_h!(c01_acc_se_f0d_p2_t5n, 33, false, 13, 2, 5, true, 0);
accept_h!(c01_acc_se_f10_p0_t0, 12, false, 16, 0, 0, false, 0);
accept_h!(c01_acc_se_f10_p2_t5n, 19, false, 16, 2, 5, true, 0);
accept_h!(c01_acc_se_f11_p0_t0, 22, false, 17, 0, 0, false, 0);
accept_h!(c01_acc_se_f11_p2_t5n, 29, false, 17, 2, 5, true, 0);
accept_h!(c01_acc_se_f14_p0_t0, 16, false, 20, 0, 0, false, 0);
accept_h!(c01_acc_se_f14_p2_t5n, 23, false, 20, 2, 5, true, 0);
accept_h!(c01_acc_se_f15_p0_t0, 26, false, 21, 0, 0, false, 0);
accept_h!(c01_acc_se_f15_p2_t5n, 33, false, 21, 2, 5, true, 0);
accept_h!(c01_acc_se_f18_p0_t0, 16, false, 24, 0, 0, false, 0);
accept_h!(c01_acc_se_f18_p2_t5n, 23, false, 24, 2, 5, true, 0);
accept_h!(c01_acc_se_f19_p0_t0, 26, false, 25, 0, 0, false, 0);
accept_h!(c01_acc_se_f19_p2_t5n, 33, false, 25, 2, 5, true, 0);
accept_h!(c01_acc_se_f1c_p0_t0, 20, false, 28, 0, 0, false, 0);
accept_h!(c01_acc_se_f1c_p2_t5n, 27, false, 28, 2, 5, true, 0);
accept_h!(c01_acc_se_f1d_p0_t0, 30, false, 29, 0, 0, false, 0);
accept_h!(c01_acc_se_f1d_p0_t3, 33, false, 29, 0, 3, false, 0);
accept_h!(c01_acc_se_f1d_p0_t5, 35, false, 29, 0, 5, false, 0);
accept_h!(c01_acc_se_f1d_p0_t5n, 35, false, 29, 0, 5, true, 0);
accept_h!(c01_acc_se_f1d_p0_t8, 38, false, 29, 0, 8, false, 0);
accept_h!(c01_acc_se_f1d_p0_t8n, 38, false, 29, 0, 8, true, 0);
accept_h!(c01_acc_se_f1d_p1_t0, 31, false, 29, 1, 0, false, 0);
accept_h!(c01_acc_se_f1d_p1_t3, 34, false, 29, 1, 3, false, 0);
accept_h!(c01_acc_se_f1d_p1_t5, 36, false, 29, 1, 5, false, 0);
accept_h!(c01_acc_se_f1d_p1_t5n, 36, false, 29, 1, 5, true, 0);
accept_h!(c01_acc_se_f1d_p1_t8, 39, false, 29, 1, 8, false, 0);
accept_h!(c01_acc_se_f1d_p1_t8n, 39, false, 29, 1, 8, true, 0);
accept_h!(c01_acc_se_f1d_p2_t0, 32, false, 29, 2, 0, false, 0);
accept_h!(c01_acc_se_f1d_p2_t3, 35, false, 29, 2, 3, false, 0);
accept_h!(c01_acc_se_f1d_p2_t5, 37, false, 29, 2, 5, false, 0);
accept_h!(c01_acc_se_f1d_p2_t5n, 37, false, 29, 2, 5, true, 0);
accept_h!(c01_acc_se_f1d_p2_t8, 40, false, 29, 2, 8, false, 0);
accept_h!(c01_acc_se_f1d_p2_t8n, 40, false, 29, 2, 8, true, 0);
accept_h!(c01_acc_se_f1d_p5_t0, 35, false, 29, 5, 0, false, 0);
accept_h!(c01_acc_se_f1d_p5_t3, 38, false, 29, 5, 3, false, 0);
accept_h!(c01_acc_se_f1d_p5_t5, 40, false, 29, 5, 5, false, 0);
accept_h!(c01_acc_se_f1d_p5_t5n, 40, false, 29, 5, 5, true, 0);
accept_h!(c01_acc_se_f1d_p5_t8, 43, false, 29, 5, 8, false, 0);
accept_h!(c01_acc_se_f1d_p5_t8n, 43, false, 29, 5, 8, true, 0);
accept_h!(c01_acc_st_f00_p0_t5ng1, 25, true, 0, 0, 5, true, 1);
accept_h!(c01_acc_st_f00_p0_t6ng2, 26, true, 0, 0, 6, true, 2);
accept_h!(c01_acc_st_f00_p0_t7ng3, 27, true, 0, 0, 7, true, 3);
accept_h!(c01_acc_st_f00_p0_t8ng4, 28, true, 0, 0, 8, true, 4);
accept_h!(c01_acc_st_f00_p2_t5ng1, 27, true, 0, 2, 5, true, 1);
accept_h!(c01_acc_st_f00_p2_t6ng2, 28, true, 0, 2, 6, true, 2);
accept_h!(c01_acc_st_f00_p2_t7ng3, 29, true, 0, 2, 7, true, 3);
accept_h!(c01_acc_st_f00_p2_t8ng4, 30, true, 0, 2, 8, true, 4);
accept_h!(c01_acc_st_f1d_p0_t5ng1, 47, true, 29, 0, 5, true, 1);
accept_h!(c01_acc_st_f1d_p0_t6ng2, 48, true, 29, 0, 6, true, 2);
accept_h!(c01_acc_st_f1d_p0_t7ng3, 49, true, 29, 0, 7, true, 3);
accept_h!(c01_acc_st_f1d_p0_t8ng4, 50, true, 29, 0, 8, true, 4);
accept_h!(c01_acc_st_f1d_p2_t5ng1, 49, true, 29, 2, 5, true, 1);
accept_h!(c01_acc_st_f1d_p2_t6ng2, 50, true, 29, 2, 6, true, 2);
accept_h!(c01_acc_st_f1d_p2_t7ng3, 51, true, 29, 2, 7, true, 3);
accept_h!(c01_acc_st_f1d_p2_t8ng4, 52, true, 29, 2, 8, true, 4);
accept_h!(c01_acc_se_f00_p0_t5ng1, 13, false, 0, 0, 5, true, 1);
accept_h!(c01_acc_se_f00_p0_t6ng2, 14, false, 0, 0, 6, true, 2);
accept_h!(c01_acc_se_f00_p0_t7ng3, 15, false, 0, 0, 7, true, 3);
accept_h!(c01_acc_se_f00_p0_t8ng4, 16, false, 0, 0, 8, true, 4);
accept_h!(c01_acc_se_f00_p2_t5ng1, 15, false, 0, 2, 5, true, 1);
accept_h!(c01_acc_se_f00_p2_t6ng2, 16, false, 0, 2, 6, true, 2);
accept_h!(c01_acc_se_f00_p2_t7ng3, 17, false, 0, 2, 7, true, 3);
accept_h!(c01_acc_se_f00_p2_t8ng4, 18, false, 0, 2, 8, true, 4);
accept_h!(c01_acc_se_f1d_p0_t5ng1, 35, false, 29, 0, 5, true, 1);
accept_h!(c01_acc_se_f1d_p0_t6ng2, 36, false, 29, 0, 6, true, 2);
accept_h!(c01_acc_se_f1d_p0_t7ng3, 37, false, 29, 0, 7, true, 3);
accept_h!(c01_acc_se_f1d_p0_t8ng4, 38, false, 29, 0, 8, true, 4);
accept_h!(c01_acc_se_f1d_p2_t5ng1, 37, false, 29, 2, 5, true, 1);
accept_h!(c01_acc_se_f1d_p2_t6ng2, 38, false, 29, 2, 6, true, 2);
accept_h!(c01_acc_se_f1d_p2_t7ng3, 39, false, 29, 2, 7, true, 3);
accept_h!(c01_acc_se_f1d_p2_t8ng4, 40, false, 29, 2, 8, true, 4);
//@END-ACCEPT@

/// L2 reject: any buffer (symbolic length <= N) that does not start with the framing's marker is refused -
/// InvalidData if it could hold a minimal message, NotEnoughData otherwise; never Ok, never a panic.
/// No assumption on the other bytes (garbage may contain D, DL, DLT, full markers at later offsets).
fn reject<const N: usize>(storage: bool) {
    let data: [u8; N] = kani::any();
    let len: usize = kani::any();
    kani::assume(len <= N);
    if len >= 4 {
        if storage {
            kani::assume(!is_storage_header_pattern(&data[0..4]));
        } else {
            kani::assume(!is_serial_header_pattern(&data[0..4]));
        }
    }
    let r = if storage { parse_dlt_with_storage_header(1, &data[..len]) } else { parse_dlt_with_serial_header(1, &data[..len]) };
    let min = if storage { 20 } else { 8 };
    match &r {
        Ok(_) => assert!(false),
        Err(e) => match e.kind() {
            ErrorKind::InvalidData(_) => assert!(len >= min),
            ErrorKind::NotEnoughData(_) => assert!(len < min),
            _ => assert!(false),
        },
    }
    kani::cover!(len >= min);
    kani::cover!(len < min && len >= 4);
    std::mem::forget(r);
}

#[kani::proof]
#[kani::unwind(44)]
#[kani::stub(alloc::fmt::format, fmt_stub)]
fn c01_reject_storage_40() {
    reject::<40>(true);
}
#[kani::proof]
#[kani::unwind(44)]
#[kani::stub(alloc::fmt::format, fmt_stub)]
fn c01_reject_serial_40() {
    reject::<40>(false);
}

/// L4 / C03-U1: ANY buffer of symbolic length <= N starting with the marker (everything else arbitrary: htyp, len field,
/// embedded markers): no panic, no arithmetic overflow, and if a message is returned then consumed = frame header +
/// len field <= data.len(), payload length = len - header size.
fn any_buffer<const N: usize>(storage: bool) {
    let mut data: [u8; N] = kani::any();
    let len: usize = kani::any();
    kani::assume(len <= N);
    if kani::any() {
        set_marker(&mut data, 0, storage);
    }
    let sh = if storage { DLT_STORAGE_HEADER_SIZE } else { DLT_SERIAL_HEADER_SIZE };
    let r = if storage { parse_dlt_with_storage_header(1, &data[..len]) } else { parse_dlt_with_serial_header(1, &data[..len]) };
    match &r {
        Ok((consumed, m)) => {
            assert!(*consumed <= len);
            assert_eq!(*consumed, sh + m.standard_header.len as usize);
            assert_eq!(m.payload.len() + m.standard_header.std_ext_header_size() as usize, m.standard_header.len as usize);
            assert_eq!(m.extended_header.is_some(), m.standard_header.has_ext_hdr());
        }
        Err(_) => {}
    }
    kani::cover!(r.is_ok() && r.as_ref().unwrap().1.payload.len() > 2, "message with payload accepted");
    kani::cover!(r.is_err() && len + 4 >= N, "long buffer refused");
    std::mem::forget(r);
}

#[kani::proof]
#[kani::unwind(44)]
#[kani::stub(alloc::fmt::format, fmt_stub)]
fn c03_u1_storage_any_40() {
    any_buffer::<40>(true);
}
#[kani::proof]
#[kani::unwind(44)]
#[kani::stub(alloc::fmt::format, fmt_stub)]
fn c03_u1_serial_any_40() {
    any_buffer::<40>(false);
}
#[kani::proof]
#[kani::unwind(28)]
#[kani::stub(alloc::fmt::format, fmt_stub)]
fn c03_u1_storage_any_24() {
    any_buffer::<24>(true);
}
#[kani::proof]
#[kani::unwind(28)]
#[kani::stub(alloc::fmt::format, fmt_stub)]
fn c03_u1_serial_any_24() {
    any_buffer::<24>(false);
}

/// summary of a parser verdict used to compare two views
fn verdict(r: &Result<(usize, DltMessage), Error>) -> (u8, usize, u8, u8, u16, u32, usize) {
    match r {
        Ok((c, m)) => (0, *c, m.standard_header.htyp, m.standard_header.mcnt, m.standard_header.len, m.timestamp_dms, m.payload.len()),
        Err(e) => match e.kind() {
            ErrorKind::InvalidData(_) => (1, 0, 0, 0, 0, 0, 0),
            ErrorKind::NotEnoughData(_) => (2, 0, 0, 0, 0, 0, 0),
            _ => (3, 0, 0, 0, 0, 0, 0),
        },
    }
}

/// C04-B2 / C01-L1b view independence: for ANY buffer content, two views data[..n1], data[..n2] that both contain the
/// first frame plus 4 bytes of look-ahead (or are both the entire rest) get the same verdict: what is recognised depends
/// on the bytes only, not on how much of the FOLLOWING data the reader happened to have buffered.
fn view_independent<const N: usize>(storage: bool) {
    let mut data: [u8; N] = kani::any();
    set_marker(&mut data, 0, storage);
    let sh = if storage { DLT_STORAGE_HEADER_SIZE } else { DLT_SERIAL_HEADER_SIZE };
    let flen = sh + u16::from_be_bytes([data[sh + 2], data[sh + 3]]) as usize; // frame length announced by the len field
    let n1: usize = kani::any();
    let n2: usize = kani::any();
    kani::assume(n1 <= N && n2 <= N && n1 >= flen + 4 && n2 >= flen + 4);
    let r1 = if storage { parse_dlt_with_storage_header(1, &data[..n1]) } else { parse_dlt_with_serial_header(1, &data[..n1]) };
    let r2 = if storage { parse_dlt_with_storage_header(1, &data[..n2]) } else { parse_dlt_with_serial_header(1, &data[..n2]) };
    let (v1, v2) = (verdict(&r1), verdict(&r2));
    assert!(v1 == v2);
    if let (Ok((_, m1)), Ok((_, m2))) = (&r1, &r2) {
        let j: usize = kani::any();
        if j < m1.payload.len() {
            assert_eq!(m1.payload[j], m2.payload[j]);
        }
    }
    kani::cover!(v1.0 == 0 && n1 != n2, "accepted in two different views");
    kani::cover!(v1.0 == 1 && n1 != n2, "refused (embedded marker) in two different views");
    std::mem::forget(r1);
    std::mem::forget(r2);
}

#[kani::proof]
#[kani::unwind(40)]
#[kani::stub(alloc::fmt::format, fmt_stub)]
fn c04_b2_view_storage_36() {
    view_independent::<36>(true);
}
#[kani::proof]
#[kani::unwind(30)]
#[kani::stub(alloc::fmt::format, fmt_stub)]
fn c04_b2_view_serial_26() {
    view_independent::<26>(false);
}

/// L1c field extraction for ALL 256 header-type bytes at once: DltMessage::from_headers on the additional-header bytes of a
/// message with symbolic htyp (so all 16 combinations of ECU id / session id / timestamp / extended header, plus the free
/// bits) - ECU, timestamp and extended header come from the right offsets. (The accept shapes enumerate the same 16
/// combinations through the whole parser, but only the thorough tier runs all of them; added after seeded change C01-4.)
#[kani::proof]
#[kani::unwind(6)]
fn c01_from_headers_fields() {
    let htyp: u8 = kani::any();
    let add: [u8; 22] = kani::any(); // 4 ecu + 4 session + 4 timestamp + 10 extended header at most
    let stdh = DltStandardHeader { htyp, mcnt: kani::any(), len: kani::any() };
    let alen = stdh.std_ext_header_size() as usize - DLT_MIN_STD_HEADER_SIZE;
    let sh = DltStorageHeader { secs: kani::any(), micros: kani::any(), ecu: DltChar4::from_buf(&kani::any::<[u8; 4]>()) };
    let sh_ecu = sh.ecu;
    let m = DltMessage::from_headers(kani::any(), sh, stdh, &add[..alen], Vec::new());
    let mut off = 0usize;
    let ecu = m.ecu.as_buf();
    if htyp & F_WEID != 0 {
        assert!(ecu[0] == add[off] && ecu[1] == add[off + 1] && ecu[2] == add[off + 2] && ecu[3] == add[off + 3]);
        off += 4;
    } else {
        assert!(m.ecu == sh_ecu);
    }
    if htyp & F_WSID != 0 {
        off += 4;
    }
    if htyp & F_WTMS != 0 {
        assert_eq!(m.timestamp_dms, u32::from_be_bytes([add[off], add[off + 1], add[off + 2], add[off + 3]]));
        off += 4;
    } else {
        assert_eq!(m.timestamp_dms, 0);
    }
    match &m.extended_header {
        Some(e) => {
            assert!(htyp & F_EXT != 0);
            assert!(e.verb_mstp_mtin == add[off] && e.noar == add[off + 1]);
            let (a, c) = (e.apid.as_buf(), e.ctid.as_buf());
            assert!(a[0] == add[off + 2] && a[3] == add[off + 5] && c[0] == add[off + 6] && c[3] == add[off + 9]);
            off += 10;
        }
        None => assert!(htyp & F_EXT == 0),
    }
    assert_eq!(off, alen);
    kani::cover!(htyp & 0x1c == 0x18 && htyp & F_EXT != 0, "session id + timestamp without ECU id, with extended header");
    kani::cover!(htyp & 0x1d == 0, "no optional parts");
    std::mem::forget(m);
}
