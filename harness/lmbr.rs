// C04-B1 — LowMarkBufReader step lemmas (child module of utils::lowmarkbufreader: private fields visible).
// CACHE_LINE_SIZE is scaled down in the scratch copy (textual cut, see DESIGN §1.1); the logic is parametric in it.
use super::*;

// ghost: ONE watched absolute stream offset and the byte the source delivered there. Sound because the reader never
// branches on byte values: if any byte could be misplaced, the watched one can.
static mut WATCH: usize = 0;
static mut WATCH_VAL: u8 = 0;
static mut WATCH_SET: bool = false;
static mut EMPTY_DEST_READ: bool = false;

/// scripted source: `len` bytes; every read returns an ARBITRARY count 1..=want (0 only at the end): the read-size
/// schedule is a sequence of solver variables
struct ScriptReader {
    len: usize,
    pos: usize,
}
impl Read for ScriptReader {
    fn read(&mut self, buf: &mut [u8]) -> std::io::Result<usize> {
        if buf.is_empty() {
            unsafe { EMPTY_DEST_READ = true };
        }
        let rem = self.len - self.pos;
        let want = if buf.len() < rem { buf.len() } else { rem };
        let n: usize = kani::any();
        kani::assume(n <= want && (n > 0 || want == 0));
        unsafe {
            if WATCH >= self.pos && WATCH < self.pos + n {
                let v: u8 = kani::any();
                buf[WATCH - self.pos] = v;
                WATCH_VAL = v;
                WATCH_SET = true;
            }
        }
        self.pos += n;
        Ok(n)
    }
}

/// an ARBITRARY reachable reader state: pos <= cap <= capacity, source cursor at abs_pos + cap,
/// empty_last_read only if the source is at its end.
fn any_state<const LM: usize, const EXTRA: usize>() -> (LowMarkBufReader<ScriptReader>, usize, usize) {
    any_state_w::<LM, EXTRA>(false)
}

/// `back`: the watched offset may also lie BEFORE the read position (but inside the buffered window): every buffered byte
/// buf[0..cap) is the source's byte at abs_pos + index (representation invariant of the window, needed for backward seeks)
fn any_state_w<const LM: usize, const EXTRA: usize>(back: bool) -> (LowMarkBufReader<ScriptReader>, usize, usize) {
    // low mark and capacity are CONCRETE per instance (a buffer of symbolic size costs CBMC > 17 GB: probed).
    // Instances cover low mark < cache line, == cache line and > cache line (the production setting: low mark 65555 >> 4096):
    // (1, 0), (4, 3), (8, 0), (10, 0) with the cache line scaled to 8; the unwind bound 13 covers a fill that needs 10 one-byte reads
    let low_mark: usize = LM;
    let capacity = low_mark + CACHE_LINE_SIZE + EXTRA;
    let src_len: usize = kani::any();
    kani::assume(src_len <= capacity + 2 * CACHE_LINE_SIZE);
    let (pos, cap, abs_pos): (usize, usize, usize) = (kani::any(), kani::any(), kani::any());
    kani::assume(pos <= cap && cap <= capacity);
    kani::assume(abs_pos <= src_len && abs_pos + cap <= src_len);
    let inner = ScriptReader { len: src_len, pos: abs_pos + cap };
    let mut r = LowMarkBufReader::new(inner, capacity, low_mark);
    r.pos = pos;
    r.cap = cap;
    r.abs_pos = abs_pos;
    let elr: bool = kani::any();
    kani::assume(!elr || abs_pos + cap == src_len);
    r.empty_last_read = elr;
    // watch cell: either already buffered (value = buffer content) or still to be delivered by the source
    let w: usize = kani::any();
    kani::assume(w >= if back { abs_pos } else { abs_pos + pos } && w < src_len);
    unsafe {
        WATCH = w;
        WATCH_SET = false;
        EMPTY_DEST_READ = false;
        if w < abs_pos + cap {
            let v: u8 = kani::any();
            r.buf[w - abs_pos] = v;
            WATCH_VAL = v;
            WATCH_SET = true;
        }
    }
    (r, src_len, w)
}

fn check_window(out: &[u8], stream_pos: usize, w: usize) {
    if w >= stream_pos && w - stream_pos < out.len() {
        unsafe {
            assert!(WATCH_SET);
            assert_eq!(out[w - stream_pos], WATCH_VAL); // exactly the source's byte, at the right place
        }
    }
}

/// B1a fill_buf: nothing lost / duplicated, >= low-mark bytes available or source exhausted, never an early EOF
fn c04_b1_fill_buf_step<const LM: usize, const EXTRA: usize>() {
    let (mut r, src_len, w) = any_state::<LM, EXTRA>();
    let (low_mark, abs0, was_elr) = (r.low_mark, r.abs_pos, r.empty_last_read);
    let before = r.abs_pos + r.pos;
    let out_len = {
        let out = r.fill_buf().unwrap();
        check_window(out, before, w);
        out.len()
    };
    assert_eq!(r.abs_pos + r.pos, before); // position in the stream unchanged by filling
    assert!(r.pos <= r.cap && r.cap <= r.buf.len());
    assert_eq!(r.inner.pos, r.abs_pos + r.cap); // source cursor = end of window
    assert!(before + out_len <= src_len);
    assert!(out_len >= low_mark || before + out_len == src_len); // look-ahead kept until the source is exhausted
    unsafe { assert!(!EMPTY_DEST_READ) }; // a 0 from the source is therefore a true end of data
    if r.empty_last_read {
        assert_eq!(r.inner.pos, src_len);
    }
    kani::cover!(r.abs_pos > abs0, "compaction happened");
    kani::cover!(out_len >= low_mark && r.inner.pos < src_len && !was_elr, "low mark reached with data remaining");
    kani::cover!(LM == 1 || (out_len < low_mark && out_len > 0), "source exhausted below the low mark");
}

/// B1b consume(n) then fill_buf: exactly n bytes (capped at what is buffered) are skipped
fn c04_b1_consume_step<const LM: usize, const EXTRA: usize>() {
    let (mut r, src_len, w) = any_state::<LM, EXTRA>();
    let before = r.abs_pos + r.pos;
    let avail = r.cap - r.pos;
    let n: usize = kani::any();
    // BufRead contract: amt <= bytes handed out by fill_buf; the implementation additionally caps an overshoot, which is
    // exercised up to capacity + 8 (an amt near usize::MAX would overflow `pos + amt` - a contract violation of the caller)
    kani::assume(n <= r.buf.len() + 8);
    r.consume(n);
    let after = r.abs_pos + r.pos;
    assert_eq!(after, before + if n < avail { n } else { avail });
    assert!(r.pos <= r.cap);
    let out_len = {
        let out = r.fill_buf().unwrap();
        if w >= after {
            check_window(out, after, w);
        }
        out.len()
    };
    assert_eq!(r.abs_pos + r.pos, after);
    assert!(after + out_len <= src_len);
    assert!(out_len >= r.low_mark || after + out_len == src_len);
    kani::cover!(n > 0 && n < avail);
    kani::cover!(n > avail, "consume beyond the buffered data is capped");
}

/// B1c read(buf): returns the next bytes of the stream, advances by exactly the amount returned, 0 only at the end
fn c04_b1_read_step<const LM: usize, const EXTRA: usize>() {
    let (mut r, src_len, w) = any_state::<LM, EXTRA>();
    let before = r.abs_pos + r.pos;
    let n: usize = kani::any();
    kani::assume(n <= 6);
    let mut dst = [0u8; 6];
    let got = r.read(&mut dst[..n]).unwrap();
    assert!(got <= n);
    assert_eq!(r.abs_pos + r.pos, before + got);
    check_window(&dst[..got], before, w);
    if n > 0 && before < src_len {
        assert!(got > 0); // never signals end-of-data early
    }
    unsafe { assert!(!EMPTY_DEST_READ) };
    kani::cover!(got > 0 && got < n, "short read at the end of the stream");
    kani::cover!(got == n && n == 6);
}

/// B1d seek inside the buffered window: position and content consistent; outside the window: refused, state intact
fn c04_b1_seek_step<const LM: usize, const EXTRA: usize>() {
    let (mut r, src_len, w) = any_state::<LM, EXTRA>();
    kani::assume(r.cap > 0); // (seek on a never-filled reader first fills: covered by fill_buf_step)
    let (abs0, cap0, pos0) = (r.abs_pos, r.cap, r.pos);
    let use_current: bool = kani::any();
    let target: usize = kani::any();
    kani::assume(target <= src_len + 8);
    let res = if use_current {
        let cur = abs0 + pos0;
        let delta = target as i64 - cur as i64;
        r.seek(std::io::SeekFrom::Current(delta))
    } else {
        r.seek(std::io::SeekFrom::Start(target as u64))
    };
    match res {
        Ok(p) => {
            assert_eq!(p as usize, target);
            assert!(target >= abs0 && target <= abs0 + cap0);
            assert_eq!(r.abs_pos + r.pos, target);
            assert!(r.abs_pos == abs0 && r.cap == cap0);
            // content after an in-window seek (also backwards: bytes before the old position are still there)
            let out = &r.buf[r.pos..r.cap];
            if w >= abs0 + pos0 {
                check_window(out, target, w);
            }
        }
        Err(e) => {
            assert!(target < abs0 || target > abs0 + cap0);
            assert!(r.abs_pos == abs0 && r.cap == cap0 && r.pos == pos0);
            std::mem::forget(e);
        }
    }
    kani::cover!(target < abs0 + pos0 && target >= abs0, "backward seek inside the window");
    kani::cover!(target > abs0 + cap0, "seek beyond the window refused");
}
pub fn fmt_stub(_args: std::fmt::Arguments<'_>) -> String {
    String::new()
}

/// B1e backward seek after a fill (compaction included): whatever position seek() ACCEPTS must deliver the source's byte
/// of that position. (Two sub-agents writing seeded changes independently pointed at this: after a compaction with a
/// non-zero alignment offset, buf[0..offset) is stale but still inside the range seek() accepts.)
fn c04_b1_seek_back_after_fill<const LM: usize, const EXTRA: usize>() {
    let (mut r, src_len, w) = any_state_w::<LM, EXTRA>(true);
    let abs0 = r.abs_pos;
    let _ = r.fill_buf().unwrap().len();
    let compacted = r.abs_pos > abs0;
    match r.seek(std::io::SeekFrom::Start(w as u64)) {
        Ok(p) => {
            assert_eq!(p as usize, w);
            assert_eq!(r.abs_pos + r.pos, w);
            let out = r.fill_buf().unwrap();
            if !out.is_empty() {
                unsafe {
                    assert!(WATCH_SET);
                    assert_eq!(out[0], WATCH_VAL); // the byte at the accepted position is the source's byte
                }
            } else {
                assert!(w == src_len);
            }
        }
        Err(e) => {
            // refusing is fine for positions that are no longer (or not yet) buffered
            assert!(w < r.abs_pos || w > r.abs_pos + r.cap || compacted);
            std::mem::forget(e);
        }
    }
    kani::cover!(compacted && w < r.abs_pos + r.pos, "backward seek after a compaction");
    kani::cover!(!compacted && w < abs0 + 1, "seek back to the start of the window");
}

macro_rules! lmbr_h {
    ($name:ident, $f:ident, $lm:expr, $extra:expr) => {
        #[kani::proof]
        #[kani::unwind(13)]
        #[kani::stub(alloc::fmt::format, fmt_stub)]
        fn $name() {
            $f::<$lm, $extra>();
        }
    };
}
lmbr_h!(c04_b1_fill_lm4_x3, c04_b1_fill_buf_step, 4, 3);
lmbr_h!(c04_b1_fill_lm1_x0, c04_b1_fill_buf_step, 1, 0);
lmbr_h!(c04_b1_fill_lm8_x0, c04_b1_fill_buf_step, 8, 0);
lmbr_h!(c04_b1_fill_lm10_x0, c04_b1_fill_buf_step, 10, 0);
lmbr_h!(c04_b1_consume_lm4_x3, c04_b1_consume_step, 4, 3);
lmbr_h!(c04_b1_consume_lm10_x0, c04_b1_consume_step, 10, 0);
lmbr_h!(c04_b1_read_lm4_x3, c04_b1_read_step, 4, 3);
lmbr_h!(c04_b1_read_lm10_x0, c04_b1_read_step, 10, 0);
lmbr_h!(c04_b1_seek_lm4_x3, c04_b1_seek_step, 4, 3);
lmbr_h!(c04_b1_seekback_lm4_x3, c04_b1_seek_back_after_fill, 4, 3);
lmbr_h!(c04_b1_seekback_lm10_x0, c04_b1_seek_back_after_fill, 10, 0);
lmbr_h!(c04_b1_seek_lm10_x0, c04_b1_seek_step, 10, 0);
