// C02 — DltMessage::to_write -> parse_dlt_with_storage_header round trip and normal form (child module of `dlt`).
use super::*;

pub fn fmt_stub(_args: std::fmt::Arguments<'_>) -> String {
    String::new()
}

/// reception times: concrete representatives (64-bit division by 10^6 on symbolic values stalls every bit-blasting back
/// end; the general statement about times is lemma R4, decided by the MIR->SMT encoder + cvc5 integer blasting)
const TIMES: [(u32, u32); 4] = [(0, 0), (u32::MAX, 999_999), (1_640_995_200, 1), (1, 500_000)];

fn any_char4() -> DltChar4 {
    DltChar4::from_buf(&kani::any::<[u8; 4]>())
}

/// R1 + R2 for one concrete shape (header flags of the INPUT message, payload length, time representative);
/// N = number of bytes to_write must emit: 16 + 4 + [ts]4 + [ext]10 + payload. The writer is a slice of exactly N bytes.
fn roundtrip<const N: usize>(flags: u8, plen: usize, tidx: usize) {
    let pl: [u8; 4] = kani::any();
    let free: u8 = kani::any();
    let htyp = (free & 0xe2) | flags; // endian bit, version bits free; WEID/WSID/WTMS/EXT as given
    let ext = if flags & 1 != 0 {
        Some(DltExtendedHeader { verb_mstp_mtin: kani::any(), noar: kani::any(), apid: any_char4(), ctid: any_char4() })
    } else {
        None
    };
    let (secs, micros) = TIMES[tidx];
    let m = DltMessage {
        index: kani::any(),
        reception_time_us: secs as u64 * 1_000_000 + micros as u64,
        ecu: any_char4(),
        timestamp_dms: if flags & 16 != 0 { kani::any() } else { 0 },
        standard_header: DltStandardHeader { htyp, mcnt: kani::any(), len: kani::any() },
        extended_header: ext,
        payload: pl[..plen].to_vec(),
        payload_text: None,
        lifecycle: kani::any(),
    };
    let mut out = [0u8; N];
    let left = {
        let mut w: &mut [u8] = &mut out[..];
        assert!(m.to_write(&mut w).is_ok()); // fits exactly ...
        w.len()
    };
    assert_eq!(left, 0); // ... and fills the N bytes
    let index2: u32 = kani::any();
    let r = parse_dlt_with_storage_header(index2, &out[..]);
    assert!(r.is_ok());
    let (consumed, m2) = r.unwrap();
    assert_eq!(consumed, N); // consumes exactly the bytes written
    assert!(m2.ecu == m.ecu);
    assert_eq!(m2.reception_time_us, m.reception_time_us);
    assert_eq!(m2.timestamp_dms, m.timestamp_dms);
    assert_eq!(m2.standard_header.has_timestamp(), m.standard_header.has_timestamp());
    assert_eq!(m2.standard_header.mcnt, m.standard_header.mcnt);
    assert_eq!(m2.is_big_endian(), m.is_big_endian());
    assert_eq!(m2.extended_header.is_some(), m.extended_header.is_some());
    if let (Some(a), Some(b)) = (&m2.extended_header, &m.extended_header) {
        assert!(a.verb_mstp_mtin == b.verb_mstp_mtin && a.noar == b.noar && a.apid == b.apid && a.ctid == b.ctid);
    }
    assert_eq!(m2.payload.len(), plen);
    let i: usize = kani::any();
    if i < plen {
        assert_eq!(m2.payload[i], pl[i]);
    }
    // R2 normal form: writing the re-read message reproduces the same bytes
    let mut out2 = [0u8; N];
    let left2 = {
        let mut w: &mut [u8] = &mut out2[..];
        assert!(m2.to_write(&mut w).is_ok());
        w.len()
    };
    assert_eq!(left2, 0);
    let k: usize = kani::any();
    if k < N {
        assert_eq!(out2[k], out[k]);
    }
    kani::cover!(htyp & 2 != 0, "big endian message");
    std::mem::forget(m);
    std::mem::forget(m2);
}

macro_rules! roundtrip_h {
    ($name:ident, $n:expr, $flags:expr, $plen:expr, $tidx:expr) => {
        #[kani::proof]
        #[kani::unwind(48)]
        #[kani::stub(alloc::fmt::format, fmt_stub)]
        fn $name() {
            roundtrip::<$n>($flags, $plen, $tidx);
        }
    };
}
// @generated roundtrip shapes (bin/gen_shapes)
//@ROUNDTRIP@
roundtrip_h!(c02_rt_f00_p0_t0, 20, 0, 0, 0);
roundtrip_h!(c02_rt_f00_p1_t1, 21, 0, 1, 1);
roundtrip_h!(c02_rt_f00_p3_t3, 23, 0, 3, 3);
roundtrip_h!(c02_rt_f01_p0_t1, 30, 1, 0, 1);
roundtrip_h!(c02_rt_f01_p1_t2, 31, 1, 1, 2);
roundtrip_h!(c02_rt_f01_p3_t0, 33, 1, 3, 0);
roundtrip_h!(c02_rt_f01_p3_t3, 33, 1, 3, 3);
roundtrip_h!(c02_rt_f04_p0_t0, 20, 4, 0, 0);
roundtrip_h!(c02_rt_f04_p1_t1, 21, 4, 1, 1);
roundtrip_h!(c02_rt_f04_p3_t3, 23, 4, 3, 3);
roundtrip_h!(c02_rt_f05_p0_t1, 30, 5, 0, 1);
roundtrip_h!(c02_rt_f05_p1_t2, 31, 5, 1, 2);
roundtrip_h!(c02_rt_f05_p3_t0, 33, 5, 3, 0);
roundtrip_h!(c02_rt_f08_p0_t0, 20, 8, 0, 0);
roundtrip_h!(c02_rt_f08_p1_t1, 21, 8, 1, 1);
roundtrip_h!(c02_rt_f08_p3_t3, 23, 8, 3, 3);
roundtrip_h!(c02_rt_f09_p0_t1, 30, 9, 0, 1);
roundtrip_h!(c02_rt_f09_p1_t2, 31, 9, 1, 2);
roundtrip_h!(c02_rt_f09_p3_t0, 33, 9, 3, 0);
roundtrip_h!(c02_rt_f0c_p0_t0, 20, 12, 0, 0);
roundtrip_h!(c02_rt_f0c_p1_t0, 21, 12, 1, 0);
roundtrip_h!(c02_rt_f0c_p1_t1, 21, 12, 1, 1);
roundtrip_h!(c02_rt_f0c_p3_t3, 23, 12, 3, 3);
roundtrip_h!(c02_rt_f0d_p0_t1, 30, 13, 0, 1);
roundtrip_h!(c02_rt_f0d_p1_t2, 31, 13, 1, 2);
roundtrip_h!(c02_rt_f0d_p3_t0, 33, 13, 3, 0);
roundtrip_h!(c02_rt_f10_p0_t0, 24, 16, 0, 0);
roundtrip_h!(c02_rt_f10_p0_t1, 24, 16, 0, 1);
roundtrip_h!(c02_rt_f10_p1_t1, 25, 16, 1, 1);
roundtrip_h!(c02_rt_f10_p3_t3, 27, 16, 3, 3);
roundtrip_h!(c02_rt_f11_p0_t1, 34, 17, 0, 1);
roundtrip_h!(c02_rt_f11_p1_t2, 35, 17, 1, 2);
roundtrip_h!(c02_rt_f11_p3_t0, 37, 17, 3, 0);
roundtrip_h!(c02_rt_f14_p0_t0, 24, 20, 0, 0);
roundtrip_h!(c02_rt_f14_p1_t1, 25, 20, 1, 1);
roundtrip_h!(c02_rt_f14_p3_t3, 27, 20, 3, 3);
roundtrip_h!(c02_rt_f15_p0_t1, 34, 21, 0, 1);
roundtrip_h!(c02_rt_f15_p1_t2, 35, 21, 1, 2);
roundtrip_h!(c02_rt_f15_p3_t0, 37, 21, 3, 0);
roundtrip_h!(c02_rt_f18_p0_t0, 24, 24, 0, 0);
roundtrip_h!(c02_rt_f18_p1_t1, 25, 24, 1, 1);
roundtrip_h!(c02_rt_f18_p3_t3, 27, 24, 3, 3);
roundtrip_h!(c02_rt_f19_p0_t1, 34, 25, 0, 1);
roundtrip_h!(c02_rt_f19_p1_t2, 35, 25, 1, 2);
roundtrip_h!(c02_rt_f19_p3_t0, 37, 25, 3, 0);
roundtrip_h!(c02_rt_f1c_p0_t0, 24, 28, 0, 0);
roundtrip_h!(c02_rt_f1c_p1_t1, 25, 28, 1, 1);
roundtrip_h!(c02_rt_f1c_p3_t3, 27, 28, 3, 3);
roundtrip_h!(c02_rt_f1d_p0_t1, 34, 29, 0, 1);
roundtrip_h!(c02_rt_f1d_p1_t2, 35, 29, 1, 2);
roundtrip_h!(c02_rt_f1d_p3_t0, 37, 29, 3, 0);
roundtrip_h!(c02_rt_f1d_p3_t1, 37, 29, 3, 1);
//@END-ROUNDTRIP@

/// writer that records the standard header (first 4 bytes) and counts everything
struct CountingWriter {
    first: [u8; 4],
    n: usize,
}
impl std::io::Write for CountingWriter {
    fn write(&mut self, buf: &[u8]) -> std::io::Result<usize> {
        let mut i = 0;
        while i < buf.len() && self.n + i < 4 {
            self.first[self.n + i] = buf[i];
            i += 1;
        }
        self.n += buf.len();
        Ok(buf.len())
    }
    fn flush(&mut self) -> std::io::Result<()> {
        Ok(())
    }
}
static ZEROS: [u8; 65536] = [0u8; 65536];

/// R3 length arithmetic for ALL sizes: a message as the parser produces it (payload.len() == len - header size of its
/// htyp, any htyp, any len up to 65535) is written with a recomputed len field that never overflows u16 and equals the
/// number of bytes emitted after the storage header.
#[kani::proof]
#[kani::unwind(6)]
fn c02_r3_len_arithmetic_all_sizes() {
    let htyp: u8 = kani::any();
    let len: u16 = kani::any();
    let stdh = DltStandardHeader { htyp, mcnt: kani::any(), len };
    let hs = stdh.std_ext_header_size();
    kani::assume(len >= hs);
    let plen = (len - hs) as usize; // parse post-condition
    let ext = if stdh.has_ext_hdr() {
        Some(DltExtendedHeader { verb_mstp_mtin: kani::any(), noar: kani::any(), apid: any_char4(), ctid: any_char4() })
    } else {
        None
    };
    let ts = if stdh.has_timestamp() { Some(kani::any::<u32>()) } else { None };
    let mut w = CountingWriter { first: [0; 4], n: 0 };
    let r = DltStandardHeader::to_write(&mut w, &stdh, &ext, None, None, ts, &ZEROS[..plen]);
    assert!(r.is_ok());
    let expect = 4 + if ts.is_some() { 4 } else { 0 } + if ext.is_some() { 10 } else { 0 } + plen;
    assert_eq!(w.n, expect);
    assert_eq!(u16::from_be_bytes([w.first[2], w.first[3]]) as usize, expect);
    assert_eq!(w.first[1], stdh.mcnt);
    // the emitted htyp announces exactly what was emitted
    let out_h = DltStandardHeader { htyp: w.first[0], mcnt: 0, len: 0 };
    assert_eq!(out_h.std_ext_header_size() as usize + plen, expect);
    assert_eq!(out_h.is_big_endian(), stdh.is_big_endian());
    kani::cover!(plen > 65000, "near-maximal payload");
    kani::cover!(plen == 0 && ext.is_some());
}
