// C20 — SeekableChain (child module of utils::seekablechain: private fields visible).
// Reference model: ONE cursor position over the concatenation of the volumes.
use super::*;
use std::io::Cursor;

/// NV volumes over LEN symbolic bytes (split points symbolic, any volume may be empty), K arbitrary
/// operations. Oracle per operation:
///  read(n):  returns r <= n bytes equal to the concatenation at the reference position; r == 0 only if
///            n == 0 or the reference position is at the end (never an early EOF)
///  seek(..): for a target inside [0, LEN] returns exactly the target; beyond the end returns LEN (clamp)
///            or the target itself (file semantics); negative targets: Err or clamp to 0. In every case
///            the position returned is the position the following reads deliver from.
fn chain_ops<const NV: usize, const LEN: usize, const K: usize>() {
    let data: [u8; LEN] = kani::any();
    let mut splits = [0usize; 8];
    let mut prev = 0usize;
    let mut v = 0;
    let mut vols: Vec<Cursor<&[u8]>> = Vec::with_capacity(NV);
    let mut some_empty_inner = false;
    while v < NV {
        let end: usize = if v == NV - 1 { LEN } else { kani::any() };
        kani::assume(prev <= end && end <= LEN);
        if end == prev && prev < LEN {
            some_empty_inner = true;
        }
        vols.push(Cursor::new(&data[prev..end]));
        splits[v] = end;
        prev = end;
        v += 1;
    }
    let mut chain = SeekableChain::new(vols);
    assert_eq!(chain.len(), LEN as u64);
    let mut pos: u64 = 0; // reference position, always <= LEN
    let mut crossed = false;
    let mut read_after_empty = false;
    let mut k = 0;
    while k < K {
        let op: u8 = kani::any();
        kani::assume(op <= 3);
        if op == 0 {
            let n: usize = kani::any();
            kani::assume(n <= 4);
            let mut buf = [0u8; 4];
            let r = chain.read(&mut buf[..n]).unwrap();
            assert!(r <= n);
            assert!(pos + r as u64 <= LEN as u64);
            if n > 0 && pos < LEN as u64 {
                assert!(r > 0); // data remains: 0 would be an early end-of-file
                if some_empty_inner {
                    read_after_empty = true;
                }
            }
            let i: usize = kani::any();
            if i < r {
                // (an `assume(i < r)` here would silently discard every path on which a read returned 0)
                assert_eq!(buf[i], data[pos as usize + i]);
            }
            if r > 0 && r < n && pos + (r as u64) < LEN as u64 {
                crossed = true;
            }
            pos += r as u64;
        } else {
            // target position as a mathematical integer (i128 cannot overflow here)
            let (sf, target): (SeekFrom, i128) = if op == 1 {
                let t: u64 = kani::any();
                (SeekFrom::Start(t), t as i128)
            } else if op == 2 {
                let o: i64 = kani::any();
                (SeekFrom::Current(o), pos as i128 + o as i128)
            } else {
                let o: i64 = kani::any();
                (SeekFrom::End(o), LEN as i128 + o as i128)
            };
            match chain.seek(sf) {
                Ok(r) => {
                    if target < 0 {
                        assert_eq!(r, 0);
                        pos = 0;
                    } else if target <= LEN as i128 {
                        assert_eq!(r as i128, target);
                        pos = r;
                    } else {
                        assert!(r == LEN as u64 || r as i128 == target);
                        pos = LEN as u64;
                    }
                }
                Err(_) => {
                    assert!(target < 0); // only a negative position may be refused; position unchanged
                }
            }
        }
        k += 1;
    }
    kani::cover!(NV == 1 || crossed, "a read stopped at a volume boundary");
    kani::cover!(NV == 1 || read_after_empty, "data read although an inner volume is empty");
    kani::cover!(pos == LEN as u64, "end reached");
    std::mem::forget(chain);
}

#[kani::proof]
#[kani::unwind(7)]
fn c20_chain_v3_l6_k3() {
    chain_ops::<3, 6, 3>();
}

#[kani::proof]
#[kani::unwind(7)]
fn c20_chain_v3_l6_k5() {
    chain_ops::<3, 6, 5>();
}

#[kani::proof]
#[kani::unwind(9)]
fn c20_chain_v4_l8_k4() {
    chain_ops::<4, 8, 4>();
}

#[kani::proof]
#[kani::unwind(7)]
fn c20_chain_v1_l4_k3() {
    chain_ops::<1, 4, 3>();
}

#[kani::proof]
#[kani::unwind(7)]
fn c20_chain_v2_l5_k4() {
    chain_ops::<2, 5, 4>();
}

/// read_to_end-style drain: from any position reached by one seek, repeated read(4) until 0 delivers
/// exactly the rest of the concatenation (the total is what callers like zip's central-directory
/// reader rely on).
#[kani::proof]
#[kani::unwind(9)]
fn c20_chain_drain_v3_l6() {
    const LEN: usize = 6;
    let data: [u8; LEN] = kani::any();
    let s1: usize = kani::any();
    let s2: usize = kani::any();
    kani::assume(s1 <= s2 && s2 <= LEN);
    let vols = vec![Cursor::new(&data[..s1]), Cursor::new(&data[s1..s2]), Cursor::new(&data[s2..])];
    let mut chain = SeekableChain::new(vols);
    let t: u64 = kani::any();
    kani::assume(t <= LEN as u64);
    assert_eq!(chain.seek(SeekFrom::Start(t)).unwrap(), t);
    let mut total = 0usize;
    let mut k = 0;
    let w: usize = kani::any(); // watched offset
    kani::assume(w < LEN);
    while k < 7 {
        let mut buf = [0u8; 4];
        let r = chain.read(&mut buf).unwrap();
        if r == 0 {
            break;
        }
        let abs = t as usize + total;
        if w >= abs && w < abs + r {
            assert_eq!(buf[w - abs], data[w]);
        }
        total += r;
        k += 1;
    }
    assert_eq!(total, LEN - t as usize);
    kani::cover!(s1 == s2 && s1 > 0 && s2 < LEN && t == 0, "empty middle volume drained from the start");
    std::mem::forget(chain);
}

/// two passes (added after seeded change C20-1): read the whole chain once, seek back to an arbitrary position, read to the
/// end again - the second pass must deliver exactly the rest of the concatenation (volume readers that were already read to
/// their end must be rewound when entered again, also when entered by skipping an empty volume).
#[kani::proof]
#[kani::unwind(9)]
fn c20_chain_two_pass_v3_l6() {
    const LEN: usize = 6;
    let data: [u8; LEN] = kani::any();
    let s1: usize = kani::any();
    let s2: usize = kani::any();
    kani::assume(s1 <= s2 && s2 <= LEN);
    let vols = vec![Cursor::new(&data[..s1]), Cursor::new(&data[s1..s2]), Cursor::new(&data[s2..])];
    let mut chain = SeekableChain::new(vols);
    let mut total = 0usize;
    let mut k = 0;
    while k < 7 {
        let mut buf = [0u8; 4];
        let r = chain.read(&mut buf).unwrap();
        if r == 0 {
            break;
        }
        total += r;
        k += 1;
    }
    assert_eq!(total, LEN);
    let t: u64 = kani::any();
    kani::assume(t <= LEN as u64);
    assert_eq!(chain.seek(SeekFrom::Start(t)).unwrap(), t);
    let w: usize = kani::any(); // watched offset
    kani::assume(w < LEN);
    let mut total2 = 0usize;
    k = 0;
    while k < 7 {
        let mut buf = [0u8; 4];
        let r = chain.read(&mut buf).unwrap();
        if r == 0 {
            break;
        }
        let abs = t as usize + total2;
        if w >= abs && w < abs + r {
            assert_eq!(buf[w - abs], data[w]);
        }
        total2 += r;
        k += 1;
    }
    assert_eq!(total2, LEN - t as usize);
    kani::cover!(s1 == s2 && s1 > 0 && s2 < LEN && (t as usize) < s1, "second pass across an empty middle volume");
    std::mem::forget(chain);
}
