// C12 — utils::remote_utils::match_filters: positive OR, negative veto, event AND-OR; markers have no effect.
// (child module of filter::filter_impl only to be able to set the private negate_match field.)
// The container SHAPE (number of filters per kind) is concrete - one solver query per shape; every filter is a
// single-criterion ECU filter with symbolic id choice and symbolic negation, so each filter's verdict on the symbolic
// message is an independent free boolean (Filter::matches itself is the subject of C11).
use super::*;
use crate::dlt::{DltChar4, DltMessage, DltStandardHeader};
use crate::filter::FilterKindContainer;
use crate::utils::remote_utils::match_filters;

pub fn re_bytes_stub(_r: &regex::bytes::Regex, _h: &[u8]) -> bool {
    false
}
pub fn re_str_stub(_r: &regex::Regex, _h: &str) -> bool {
    false
}
pub fn re_fancy_stub(_r: &fancy_regex::Regex, _h: &str) -> fancy_regex::Result<bool> {
    Ok(false)
}
pub fn pat_stub(_m: &DltMessage) -> Result<std::borrow::Cow<'_, str>, std::fmt::Error> {
    Ok(std::borrow::Cow::Borrowed(""))
}

fn ecu_id(sel: bool) -> DltChar4 {
    if sel {
        DltChar4::from_buf(b"ECU1")
    } else {
        DltChar4::from_buf(b"ECU2")
    }
}

/// returns the filter and its expected verdict on a message with ecu `msg_sel`
fn ecu_filter(kind: FilterKind, msg_sel: bool) -> (Filter, bool) {
    let sel: bool = kani::any();
    let neg: bool = kani::any();
    let mut f = Filter::new(kind);
    f.negate_match = neg;
    f.ecu = Some(Char4OrRegex::DltChar4(ecu_id(sel)));
    (f, (sel == msg_sel) != neg)
}

fn set_shape<const NP: usize, const NN: usize, const NE: usize, const NM: usize>() {
    let msg_sel: bool = kani::any();
    let m = DltMessage {
        index: kani::any(),
        reception_time_us: kani::any(),
        ecu: ecu_id(msg_sel),
        timestamp_dms: kani::any(),
        standard_header: DltStandardHeader { htyp: 0x30, mcnt: 0, len: 4 },
        extended_header: None,
        payload: Vec::new(),
        payload_text: None,
        lifecycle: 0,
    };
    let mut fs: FilterKindContainer<Vec<Filter>> = Default::default();
    let mut any_pos = false;
    let mut any_neg = false;
    let mut any_ev = false;
    let mut i = 0;
    while i < NP {
        let (f, v) = ecu_filter(FilterKind::Positive, msg_sel);
        any_pos |= v;
        fs[FilterKind::Positive].push(f);
        i += 1;
    }
    i = 0;
    while i < NN {
        let (f, v) = ecu_filter(FilterKind::Negative, msg_sel);
        any_neg |= v;
        fs[FilterKind::Negative].push(f);
        i += 1;
    }
    i = 0;
    while i < NE {
        let (f, v) = ecu_filter(FilterKind::Event, msg_sel);
        any_ev |= v;
        fs[FilterKind::Event].push(f);
        i += 1;
    }
    i = 0;
    while i < NM {
        let (f, _v) = ecu_filter(FilterKind::Marker, msg_sel);
        fs[FilterKind::Marker].push(f);
        i += 1;
    }
    // the rule of the statement
    let expect = (NP == 0 || any_pos) && !any_neg && (NE == 0 || any_ev);
    let got = match_filters(&m, &fs);
    assert_eq!(got, expect);
    kani::cover!(got, "kept");
    kani::cover!(!got || NP + NN + NE == 0, "dropped (or nothing can drop)");
    std::mem::forget(fs);
    std::mem::forget(m);
}

macro_rules! set_h {
    ($name:ident, $np:expr, $nn:expr, $ne:expr, $nm:expr) => {
        #[kani::proof]
        #[kani::unwind(5)]
        #[kani::stub(regex::bytes::Regex::is_match, re_bytes_stub)]
        #[kani::stub(regex::Regex::is_match, re_str_stub)]
        #[kani::stub(fancy_regex::Regex::is_match, re_fancy_stub)]
        #[kani::stub(crate::dlt::DltMessage::payload_as_text, pat_stub)]
        fn $name() {
            set_shape::<$np, $nn, $ne, $nm>();
        }
    };
}
// @generated shapes p/n/e/m
set_h!(c12_set_p0n0e0m1, 0, 0, 0, 1);
set_h!(c12_set_p0n0e1m0, 0, 0, 1, 0);
set_h!(c12_set_p0n0e2m1, 0, 0, 2, 1);
set_h!(c12_set_p0n1e0m0, 0, 1, 0, 0);
set_h!(c12_set_p0n1e1m1, 0, 1, 1, 1);
set_h!(c12_set_p0n1e2m0, 0, 1, 2, 0);
set_h!(c12_set_p0n2e0m1, 0, 2, 0, 1);
set_h!(c12_set_p0n2e1m0, 0, 2, 1, 0);
set_h!(c12_set_p0n2e2m1, 0, 2, 2, 1);
set_h!(c12_set_p1n0e0m0, 1, 0, 0, 0);
set_h!(c12_set_p1n0e1m1, 1, 0, 1, 1);
set_h!(c12_set_p1n0e2m0, 1, 0, 2, 0);
set_h!(c12_set_p1n1e0m1, 1, 1, 0, 1);
set_h!(c12_set_p1n1e1m0, 1, 1, 1, 0);
set_h!(c12_set_p1n1e2m1, 1, 1, 2, 1);
set_h!(c12_set_p1n2e0m0, 1, 2, 0, 0);
set_h!(c12_set_p1n2e1m1, 1, 2, 1, 1);
set_h!(c12_set_p1n2e2m0, 1, 2, 2, 0);
set_h!(c12_set_p2n0e0m1, 2, 0, 0, 1);
set_h!(c12_set_p2n0e1m0, 2, 0, 1, 0);
set_h!(c12_set_p2n0e2m1, 2, 0, 2, 1);
set_h!(c12_set_p2n1e0m0, 2, 1, 0, 0);
set_h!(c12_set_p2n1e1m1, 2, 1, 1, 1);
set_h!(c12_set_p2n1e2m0, 2, 1, 2, 0);
set_h!(c12_set_p2n2e0m1, 2, 2, 0, 1);
set_h!(c12_set_p2n2e1m0, 2, 2, 1, 0);
set_h!(c12_set_p2n2e2m1, 2, 2, 2, 1);
set_h!(c12_set_p0n0e0m2, 0, 0, 0, 2);
