// C03-U3 — control-message payload parsers on arbitrary bytes (child module of `dlt`).
// The text decoding of descriptions goes through encoding_rs + a lazily built regex; both crash kani-compiler, so
// exactly those three call targets are replaced (listed as stubs); everything else is the real code.
use super::*;

pub fn decode_stub<'a>(_e: &'static encoding_rs::Encoding, bytes: &'a [u8]) -> (std::borrow::Cow<'a, str>, bool) {
    let _ = bytes;
    (std::borrow::Cow::Borrowed(""), false)
}
pub fn replace_all_stub<'h, R: regex::Replacer>(_r: &regex::Regex, haystack: &'h str, _rep: R) -> std::borrow::Cow<'h, str> {
    std::borrow::Cow::Borrowed(haystack)
}
static mut DUMMY_RE: std::mem::MaybeUninit<regex::Regex> = std::mem::MaybeUninit::uninit();
pub fn re_deref_stub(_s: &crate::dlt::RE_NEW_LINE) -> &regex::Regex {
    // a valid (never read) location: the only consumer, Regex::replace_all, is stubbed as well
    unsafe { &*std::ptr::addr_of!(DUMMY_RE).cast::<regex::Regex>() }
}

/// get-log-info response: status concrete (the parser's format switches on it), byte order and payload bytes symbolic,
/// payload length symbolic <= N: no panic, no overflow of offset/avail, result bounded by the announced counts
fn log_info<const N: usize>(status: u8) {
    log_info_cnt::<N>(status, None)
}

/// `cnt`: Some(c) fixes the announced number of application ids to the CONCRETE value c (so that the parser's
/// Vec::with_capacity(count) has a concrete size - a symbolic-size allocation is what costs ~20 GB); everything else symbolic
fn log_info_cnt<const N: usize>(status: u8, cnt_fixed: Option<u16>) {
    let mut pl: [u8; N] = kani::any();
    let plen: usize = kani::any();
    kani::assume(plen <= N);
    let big: bool = kani::any();
    if let Some(c) = cnt_fixed {
        let b = if big { c.to_be_bytes() } else { c.to_le_bytes() };
        pl[0] = b[0];
        pl[1] = b[1];
    }
    if plen >= 2 {
        // announced number of application ids <= 3: the parser pre-allocates a Vec of that many entries, and an allocation of
        // symbolic size costs CBMC ~20 GB (probed); with 8..14 payload bytes at most 2 entries can be present anyway.
        // The announced count is a u16, so the pre-allocation is bounded by 65535 entries (~4 MB) for any input.
        let cnt = if big { u16::from_be_bytes([pl[0], pl[1]]) } else { u16::from_le_bytes([pl[0], pl[1]]) };
        kani::assume(cnt <= 3);
    }
    let r = control_msgs::parse_ctrl_log_info_payload(status, big, &pl[..plen]);
    if plen >= 2 {
        let cnt = if big { u16::from_be_bytes([pl[0], pl[1]]) } else { u16::from_le_bytes([pl[0], pl[1]]) } as usize;
        assert!(r.len() <= cnt);
    } else {
        assert!(r.is_empty());
    }
    assert!(r.len() <= N / 6 + 1);
    // (with status 7 an application entry needs 2 more bytes for its description length)
    if !(3..=7).contains(&status) {
        assert!(r.is_empty());
    }
    kani::cover!(!r.is_empty() || !(3..=7).contains(&status), "an application entry was parsed");
    kani::cover!(plen >= 2, "count field present");
    std::mem::forget(r);
}

macro_rules! log_info_h {
    ($name:ident, $n:expr, $status:expr) => {
        #[kani::proof]
        #[kani::unwind(5)]
        #[kani::stub(encoding_rs::Encoding::decode_without_bom_handling, decode_stub)]
        #[kani::stub(regex::Regex::replace_all, replace_all_stub)]
        #[kani::stub(<crate::dlt::RE_NEW_LINE as std::ops::Deref>::deref, re_deref_stub)]
        fn $name() {
            log_info::<$n>($status);
        }
    };
}
log_info_h!(c03_u3_log_info_s8_12, 12, 8);
macro_rules! log_info_cnt_h {
    ($name:ident, $n:expr, $status:expr, $cnt:expr) => {
        #[kani::proof]
        #[kani::unwind(5)]
        #[kani::stub(encoding_rs::Encoding::decode_without_bom_handling, decode_stub)]
        #[kani::stub(regex::Regex::replace_all, replace_all_stub)]
        #[kani::stub(<crate::dlt::RE_NEW_LINE as std::ops::Deref>::deref, re_deref_stub)]
        fn $name() {
            log_info_cnt::<$n>($status, Some($cnt));
        }
    };
}
log_info_cnt_h!(c03_u3_log_info_s6_c1_14, 14, 6, 1);
log_info_cnt_h!(c03_u3_log_info_s7_c1_16, 16, 7, 1);
log_info_cnt_h!(c03_u3_log_info_s4_c1_13, 13, 4, 1);
log_info_cnt_h!(c03_u3_log_info_s5_c1_13, 13, 5, 1);
log_info_cnt_h!(c03_u3_log_info_s3_c2_14, 14, 3, 2);
log_info_h!(c03_u3_log_info_s3_12, 12, 3);

/// the three fixed-size user-defined payloads + the software-version length arithmetic: arbitrary bytes, any length <= 16
#[kani::proof]
#[kani::unwind(8)]
#[kani::stub(encoding_rs::Encoding::decode_without_bom_handling, decode_stub)]
#[kani::stub(regex::Regex::replace_all, replace_all_stub)]
#[kani::stub(<crate::dlt::RE_NEW_LINE as std::ops::Deref>::deref, re_deref_stub)]
fn c03_u3_fixed_payloads() {
    let pl: [u8; 16] = kani::any();
    let plen: usize = kani::any();
    kani::assume(plen <= 16);
    let big: bool = kani::any();
    let p = &pl[..plen];
    let a = control_msgs::parse_ctrl_unregister_context_payload(p);
    assert_eq!(a.is_some(), plen == 12);
    if let Some((apid, ctid, comid)) = &a {
        assert!(apid.as_buf()[0] == pl[0] && ctid.as_buf()[0] == pl[4] && comid.as_buf()[3] == pl[11]);
    }
    let b = control_msgs::parse_ctrl_connection_info_payload(p);
    assert_eq!(b.is_some(), plen == 5);
    if let Some((state, comid)) = &b {
        assert!(*state == pl[0] && comid.as_buf()[0] == pl[1] && comid.as_buf()[3] == pl[4]);
    }
    let c = control_msgs::parse_ctrl_timezone_payload(big, p);
    assert_eq!(c.is_some(), plen == 5);
    if let Some((off, dst)) = c {
        let e = if big { i32::from_be_bytes([pl[0], pl[1], pl[2], pl[3]]) } else { i32::from_le_bytes([pl[0], pl[1], pl[2], pl[3]]) };
        assert!(off == e && dst == (pl[4] > 0));
    }
    let d = control_msgs::parse_ctrl_sw_version_payload(big, p);
    if plen < 4 {
        assert!(d.is_none());
    }
    kani::cover!(d.is_some(), "software version accepted");
    kani::cover!(d.is_none() && plen >= 4, "software version length beyond the payload refused");
    std::mem::forget(d);
}
