// C17 — FileTransfer reassembly state machine (child module of plugins::file_transfer: private struct visible).
use super::*;

/// capacity reserved when data is kept: production reserves nr_packages * buffer_size (announced) or 512 bytes (announcement lost);
/// the harness files have at most 6 bytes, so 16 stands for 'more than the file', and the `_cap2` harnesses scale the 512 down to 2
/// so that the stored length reaches and exceeds the reserved capacity (added after seeded change C17-8)
static mut KEEP_CAP: usize = 16;

fn new_ft(state: FileTransferState, nr_packages: u64, buffer_size: u64, file_size: u64, keep: bool) -> FileTransfer {
    FileTransfer {
        ecu: DltChar4::from_buf(b"ECU1"),
        lifecycle: 1,
        serial: 1,
        state,
        file_name: String::new(),
        file_size,
        file_creation_date: String::new(),
        nr_packages,
        buffer_size,
        next_package: 1,
        recvd_packages: 0,
        recvd_payload: 0,
        file_data: Vec::with_capacity(if keep { unsafe { KEEP_CAP } } else { 0 }),
        auto_saved_to: None,
    }
}

const FMAX: usize = 6;

/// the sender: file of fsize (1..=6) symbolic bytes, package size bs (1..=3) => nr = ceil(fsize/bs) <= 3 packages
/// (covers: last package shorter, package size 1, package size = file size)
fn sender() -> ([u8; FMAX], usize, usize, usize) {
    let file: [u8; FMAX] = kani::any();
    let fsize: usize = kani::any();
    let bs: usize = kani::any();
    kani::assume(fsize >= 1 && fsize <= FMAX && bs >= 1 && bs <= 3);
    let nr = (fsize + bs - 1) / bs;
    kani::assume(nr <= 3);
    (file, fsize, bs, nr)
}

fn raw_arg(raw: &[u8]) -> DltArg<'_> {
    DltArg { type_info: crate::dlt::DLT_TYPE_INFO_RAWD, is_big_endian: false, payload_raw: raw }
}

/// T1 safety. The channel delivers K packages; each has an ARBITRARY package number (also 0 / nr+1) and carries the
/// genuine bytes of that number, possibly resized (truncated, or extended into the following file bytes): this one loop
/// contains drop, duplicate, swap, resize and fault-free delivery. Optionally the end marker follows.
/// Complete => the stored data is exactly the file, with the announced size.
fn t1_deliveries<const K: usize>(announced: bool, keep: bool) {
    let (file, fsize, bs, nr) = sender();
    let mut ft = if announced {
        new_ft(FileTransferState::Started, nr as u64, bs as u64, fsize as u64, keep)
    } else {
        // announcement lost: the plugin creates this record when it sees package 1
        new_ft(FileTransferState::MissingStart, u64::MAX, 0, 0, keep)
    };
    let mut in_order_genuine = 0usize; // how many genuine packages 1.. arrived as a subsequence in order
    let mut fault_seen = false; // a delivery that is neither the next genuine package nor a duplicate of an accepted one
    let mut k = 0;
    while k < K {
        let pnr: usize = kani::any();
        kani::assume(pnr <= nr + 1);
        let s = if pnr >= 1 && pnr <= nr { (pnr - 1) * bs } else { 0 };
        let e = if s + bs < fsize { s + bs } else { fsize };
        let e2: usize = kani::any();
        kani::assume(e2 >= s && e2 <= FMAX && e2 <= s + bs + 1);
        if pnr >= 1 && pnr <= nr && pnr == in_order_genuine + 1 && e2 == e {
            in_order_genuine += 1;
        } else if !(pnr >= 1 && pnr <= in_order_genuine) {
            fault_seen = true; // out of order / out of range / resized (a repeated, already accepted package is tolerated)
        }
        let arg = raw_arg(&file[s..e2]);
        if !announced {
            // the lost announcement is the single fault: numbering faults (drop/duplicate/swap) are still delivered,
            // but every package has its genuine size (the package size is learned from package 1)
            kani::assume(e2 == e && pnr >= 1 && pnr <= nr);
            if k == 0 {
                kani::assume(pnr == 1); // the record exists only because package 1 was seen
            }
        }
        let _ = ft.add_flda(pnr as u64, &arg);
        k += 1;
    }
    if kani::any() {
        let _ = ft.check_finished(true); // end marker
    }
    if ft.state == FileTransferState::Complete {
        if announced {
            assert_eq!(ft.recvd_payload, fsize);
            assert_eq!(ft.file_size, fsize as u64);
            assert!(in_order_genuine == nr); // nothing missing, nothing out of order
        }
        if !announced {
            // without announcement the end marker is the only completeness evidence: the transfer may be reported complete
            // only if every delivered package was the next one in order (added after seeded change C17-2)
            assert!(!fault_seen);
        }
        if keep {
            assert_eq!(ft.file_data.len(), ft.recvd_payload);
            let i: usize = kani::any();
            if i < ft.file_data.len() {
                // announced: the whole file; announcement lost: at least never damaged content (a prefix of the file)
                assert!(i < fsize);
                assert_eq!(ft.file_data[i], file[i]);
            }
        }
    }
    kani::cover!(ft.state == FileTransferState::Complete && nr == 3, "3-package transfer completed");
    // (without announcement a shorter last package is never accepted - the transfer then stays incomplete, the safe side)
    kani::cover!(ft.state == FileTransferState::Complete && (fsize % bs != 0 || !announced), "completed with a shorter last package");
    kani::cover!(ft.state == FileTransferState::Incomplete, "transfer flagged incomplete");
    std::mem::forget(ft);
}

#[kani::proof]
#[kani::unwind(8)]
fn c17_t1_announced_k3() {
    t1_deliveries::<3>(true, true);
}
#[kani::proof]
#[kani::unwind(8)]
fn c17_t1_announced_k4() {
    t1_deliveries::<4>(true, true);
}
#[kani::proof]
#[kani::unwind(8)]
fn c17_t1_announced_k5() {
    t1_deliveries::<5>(true, true);
}
#[kani::proof]
#[kani::unwind(8)]
fn c17_t1_announced_nokeep_k4() {
    t1_deliveries::<4>(true, false);
}
#[kani::proof]
#[kani::unwind(8)]
fn c17_t3_missing_start_k3() {
    t1_deliveries::<3>(false, true);
}
#[kani::proof]
#[kani::unwind(8)]
fn c17_t3_missing_start_k4() {
    t1_deliveries::<4>(false, true);
}
#[kani::proof]
#[kani::unwind(10)]
fn c17_t3_missing_start_cap2_k3() {
    unsafe { KEEP_CAP = 2 };
    t1_deliveries::<3>(false, true);
}

/// T2 progress: all genuine packages 1..nr in order, with at most one duplicate of an already delivered package
/// inserted at an arbitrary point (duplicates are tolerated) => reported Complete exactly when the last package arrives,
/// not before; a following end marker does not change that.
#[kani::proof]
#[kani::unwind(8)]
fn c17_t2_in_order_completes() {
    let (file, fsize, bs, nr) = sender();
    let mut ft = new_ft(FileTransferState::Started, nr as u64, bs as u64, fsize as u64, true);
    let dup_after: usize = kani::any(); // 0 = no duplicate; d>=1: after genuine package d, package dup_of (<= d) is delivered again
    let dup_of: usize = kani::any();
    kani::assume(dup_after <= nr && (dup_after == 0 || (dup_of >= 1 && dup_of <= dup_after)));
    if kf::C17_DUPLICATE_PACKAGE {
        kani::assume(dup_after == 0 || dup_after == nr);
    }
    let mut p = 1;
    while p <= 3 {
        if p <= nr {
            let s = (p - 1) * bs;
            let e = if s + bs < fsize { s + bs } else { fsize };
            assert!(ft.state == FileTransferState::Started); // not finished (nor given up) before the last package
            let _ = ft.add_flda(p as u64, &raw_arg(&file[s..e]));
            if p == dup_after {
                let s = (dup_of - 1) * bs;
                let e = if s + bs < fsize { s + bs } else { fsize };
                let _ = ft.add_flda(dup_of as u64, &raw_arg(&file[s..e]));
            }
        }
        p += 1;
    }
    assert!(ft.state == FileTransferState::Complete);
    let _ = ft.check_finished(true);
    assert!(ft.state == FileTransferState::Complete);
    assert_eq!(ft.file_data.len(), fsize);
    let i: usize = kani::any();
    kani::assume(i < fsize);
    assert_eq!(ft.file_data[i], file[i]);
    kani::cover!(dup_after >= 1 && dup_after < nr, "duplicate in the middle of the transfer");
    kani::cover!(nr == 1, "single package transfer");
    std::mem::forget(ft);
}

/// witness for the known-finding role c17_duplicate_package (only run while that entry is open)
#[kani::proof]
#[kani::unwind(8)]
fn c17_t2_witness_duplicate() {
    let file: [u8; 4] = kani::any();
    let mut ft = new_ft(FileTransferState::Started, 2, 2, 4, true);
    let _ = ft.add_flda(1, &raw_arg(&file[0..2]));
    let _ = ft.add_flda(1, &raw_arg(&file[0..2])); // duplicate
    let _ = ft.add_flda(2, &raw_arg(&file[2..4]));
    assert!(ft.state == FileTransferState::Complete);
    std::mem::forget(ft);
}

/// T4: a single dropped package (any one), everything else genuine and in order, then the end marker:
/// never Complete (direct statement of the negative half of the property; also implied by T1)
#[kani::proof]
#[kani::unwind(8)]
fn c17_t4_dropped_package_never_complete() {
    let (file, fsize, bs, nr) = sender();
    let mut ft = new_ft(FileTransferState::Started, nr as u64, bs as u64, fsize as u64, true);
    let dropped: usize = kani::any();
    kani::assume(dropped >= 1 && dropped <= nr);
    let mut p = 1;
    while p <= 3 {
        if p <= nr && p != dropped {
            let s = (p - 1) * bs;
            let e = if s + bs < fsize { s + bs } else { fsize };
            let _ = ft.add_flda(p as u64, &raw_arg(&file[s..e]));
        }
        p += 1;
    }
    assert!(ft.state != FileTransferState::Complete);
    let _ = ft.check_finished(true);
    assert!(ft.state != FileTransferState::Complete);
    kani::cover!(dropped == nr && nr == 3, "last package dropped");
    kani::cover!(dropped == 1 && nr > 1, "first package dropped");
    std::mem::forget(ft);
}
