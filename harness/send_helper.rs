// C13 — utils::sync_sender_send_delay_if_full with the channel as nondeterministic environment.
// Kani cannot encode std::sync::mpsc (kani-compiler ICE on send/recv) nor threads, so under Kani the channel
// operations are replaced by models (#[kani::stub]) that return an arbitrary outcome of their documented contract and
// count deliveries in a ghost variable. The SAME harness body runs natively (concrete playback: stubs are not applied)
// against a REAL channel that `env_prepare` brings into the state producing that outcome, and `env_delivered` drains.
use super::*;
use std::sync::mpsc::{Receiver, SendError, SyncSender, TrySendError};

static mut SENT: u32 = 0; // ghost: number of times the message was handed to the channel
static mut TRY_OUTCOME: u8 = 0; // 0 = Ok, 1 = Full, 2 = Disconnected
static mut SEND_OK: bool = true; // outcome of the blocking send after Full

pub fn try_send_model<T>(_tx: &SyncSender<T>, t: T) -> Result<(), TrySendError<T>> {
    unsafe {
        match TRY_OUTCOME {
            0 => {
                SENT += 1;
                std::mem::forget(t);
                Ok(())
            }
            1 => Err(TrySendError::Full(t)),
            _ => Err(TrySendError::Disconnected(t)),
        }
    }
}
pub fn send_model<T>(_tx: &SyncSender<T>, t: T) -> Result<(), SendError<T>> {
    unsafe {
        if SEND_OK {
            SENT += 1;
            std::mem::forget(t);
            Ok(())
        } else {
            Err(SendError(t))
        }
    }
}
pub fn sleep_model(_d: std::time::Duration) {}

/// native: bring a real sync_channel(1) into the state that produces (outcome, send_ok); returns the receiver end
/// (or None if it had to be given away / dropped)
fn env_prepare(tx: &SyncSender<u64>, rx: Receiver<u64>, outcome: u8, send_ok: bool) -> Option<Receiver<u64>> {
    match outcome {
        0 => Some(rx),
        1 => {
            tx.send(u64::MAX).unwrap(); // fill the only slot with a dummy
            if send_ok {
                // a consumer takes the dummy after the helper found the channel full, then hands the receiver back
                let (back_tx, back_rx) = std::sync::mpsc::channel();
                std::thread::spawn(move || {
                    // the consumer stalls LONGER than the helper's 10 ms delay: the channel is still full when the helper
                    // resumes, so only a blocking send (not a second try_send) delivers
                    std::thread::sleep(std::time::Duration::from_millis(80));
                    assert_eq!(rx.recv().unwrap(), u64::MAX);
                    // wait until the helper's blocking send has delivered, then return the receiver
                    std::thread::sleep(std::time::Duration::from_millis(30));
                    back_tx.send(rx).unwrap();
                });
                NATIVE_RX_BACK.with(|c| *c.borrow_mut() = Some(back_rx));
                None
            } else {
                std::thread::spawn(move || {
                    std::thread::sleep(std::time::Duration::from_millis(80));
                    drop(rx); // consumer disappears while the channel is full (after the helper started to block)
                });
                None
            }
        }
        _ => {
            drop(rx);
            None
        }
    }
}
thread_local! {
    static NATIVE_RX_BACK: std::cell::RefCell<Option<Receiver<Receiver<u64>>>> = std::cell::RefCell::new(None);
}
fn env_prepare_model(_tx: &SyncSender<u64>, rx: Receiver<u64>, _outcome: u8, _send_ok: bool) -> Option<Receiver<u64>> {
    std::mem::forget(rx);
    None
}

/// native: how often does `v` sit in the channel now
fn env_delivered(rx: Option<Receiver<u64>>, v: u64) -> u32 {
    let rx = match rx {
        Some(rx) => Some(rx),
        None => NATIVE_RX_BACK.with(|c| c.borrow_mut().take()).map(|b| b.recv().unwrap()),
    };
    match rx {
        Some(rx) => rx.try_iter().filter(|x| *x == v).count() as u32,
        None => 0,
    }
}
fn env_delivered_model(rx: Option<Receiver<u64>>, _v: u64) -> u32 {
    std::mem::forget(rx);
    unsafe { SENT }
}

fn send_helper_case(outcome: u8) {
    let v: u64 = kani::any();
    kani::assume(v != u64::MAX); // u64::MAX is the dummy used by the native environment
    let send_ok: bool = kani::any();
    unsafe {
        TRY_OUTCOME = outcome;
        SEND_OK = send_ok;
        SENT = 0;
    }
    let (tx, rx) = std::sync::mpsc::sync_channel::<u64>(1);
    let rx = env_prepare(&tx, rx, outcome, send_ok);
    let r = sync_sender_send_delay_if_full(v, &tx);
    let delivered = env_delivered(rx, v);
    // Ok  <=> handed to the channel exactly once; Err carries the very same message and nothing was delivered
    match r {
        Ok(()) => {
            assert_eq!(delivered, 1);
            assert!(outcome == 0 || (outcome == 1 && send_ok));
        }
        Err(SendError(x)) => {
            assert_eq!(delivered, 0);
            assert_eq!(x, v);
            assert!(outcome == 2 || (outcome == 1 && !send_ok));
        }
    }
    kani::cover!(send_ok);
    kani::cover!(!send_ok);
    std::mem::forget(tx);
}

macro_rules! c13_case {
    ($name:ident, $o:expr) => {
        #[kani::proof]
        #[kani::stub(std::sync::mpsc::SyncSender::try_send, try_send_model)]
        #[kani::stub(std::sync::mpsc::SyncSender::send, send_model)]
        #[kani::stub(std::thread::sleep, sleep_model)]
        #[kani::stub(env_prepare, env_prepare_model)]
        #[kani::stub(env_delivered, env_delivered_model)]
        fn $name() {
            send_helper_case($o);
        }
    };
}
c13_case!(c13_send_helper_try_ok, 0);
c13_case!(c13_send_helper_try_full, 1);
c13_case!(c13_send_helper_try_disconnected, 2);

/// the instantiation the pipeline uses: T = DltMessage (ghost-counted; the returned message is the same one: tag in mcnt/index)
#[kani::proof]
#[kani::unwind(4)]
#[kani::stub(std::sync::mpsc::SyncSender::try_send, try_send_model)]
#[kani::stub(std::sync::mpsc::SyncSender::send, send_model)]
#[kani::stub(std::thread::sleep, sleep_model)]
fn c13_send_helper_dltmessage() {
    let outcome: u8 = kani::any();
    kani::assume(outcome <= 2);
    let send_ok: bool = kani::any();
    unsafe {
        TRY_OUTCOME = outcome;
        SEND_OK = send_ok;
        SENT = 0;
    }
    let idx: u32 = kani::any();
    let m = crate::dlt::DltMessage {
        index: idx,
        reception_time_us: kani::any(),
        ecu: crate::dlt::DltChar4::from_buf(b"ECU1"),
        timestamp_dms: kani::any(),
        standard_header: crate::dlt::DltStandardHeader { htyp: 0x20, mcnt: kani::any(), len: 4 },
        extended_header: None,
        payload: Vec::new(),
        payload_text: None,
        lifecycle: 0,
    };
    let (tx, rx) = std::sync::mpsc::sync_channel::<crate::dlt::DltMessage>(1);
    let r = sync_sender_send_delay_if_full(m, &tx);
    let sent = unsafe { SENT };
    match r {
        Ok(()) => assert_eq!(sent, 1),
        Err(SendError(x)) => {
            assert_eq!(sent, 0);
            assert_eq!(x.index, idx);
            std::mem::forget(x);
        }
    }
    kani::cover!(outcome == 1 && send_ok);
    kani::cover!(outcome == 1 && !send_ok);
    kani::cover!(outcome == 2);
    std::mem::forget(tx);
    std::mem::forget(rx);
}
