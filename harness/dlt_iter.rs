// C01-L3 / C03-U1 — DltMessageIterator::next as ONE step from an arbitrary iterator state
// (child module of utils::dltmessageiterator). Reader = &[u8] (a BufRead); logging off.
use super::*;
use crate::dlt::{is_serial_header_pattern, is_storage_header_pattern};

pub fn fmt_stub(_args: std::fmt::Arguments<'_>) -> String {
    String::new()
}

/// framing-flag state of the iterator: 0 = nothing detected yet, 1 = storage detected, 2 = serial detected
fn iter_in_state<'a>(data: &'a [u8], mode: u8, start: u32, bp: usize, bs: usize) -> DltMessageIterator<'a, &'a [u8]> {
    let mut it = DltMessageIterator::new(start, data);
    it.detected_storage_header = mode == 1;
    it.detected_serial_header = mode == 2;
    it.bytes_processed = bp;
    it.bytes_skipped = bs;
    it
}

/// L3 step. Buffer = G garbage bytes (no 'D': L3 checks how parser verdicts become counters and mode; generality
/// about garbage CONTENT is L2) + one minimal message of the framing + T tail bytes (no 'D').
/// From ANY counter state and each reachable flag state: one next() yields the message numbered `index`, index+1
/// afterwards, bytes_skipped + G, bytes_processed + G + message length, the framing's flag set and the other clear;
/// a second next() on the short tail returns None and leaves the tail unconsumed.
fn iter_step<const N: usize>(storage: bool, mode: u8, g: usize, t: usize) {
    let mlen = if storage { 20 } else { 8 };
    assert!(g + mlen + t == N);
    let mut data: [u8; N] = kani::any();
    let mut i = 0;
    while i < N {
        if i < g || i >= g + 4 {
            kani::assume(data[i] != b'D');
        }
        i += 1;
    }
    data[g] = b'D';
    data[g + 1] = b'L';
    data[g + 2] = if storage { b'T' } else { b'S' };
    data[g + 3] = 1;
    let so = g + mlen - 4; // standard header offset
    let free: u8 = kani::any();
    data[so] = free & 0xe2; // no optional parts: minimal message; endian + version bits free
    data[so + 2] = 0;
    data[so + 3] = 4;
    let start: u32 = kani::any();
    kani::assume(start < u32::MAX);
    let bp: usize = kani::any();
    let bs: usize = kani::any();
    kani::assume(bs <= bp && bp < usize::MAX / 2);
    let mut it = iter_in_state(&data[..], mode, start, bp, bs);
    let a = it.next();
    assert!(a.is_some());
    let a = a.unwrap();
    assert_eq!(a.index, start);
    assert_eq!(a.standard_header.mcnt, data[so + 1]);
    assert_eq!(a.standard_header.htyp, free & 0xe2);
    assert_eq!(a.payload.len(), 0);
    assert_eq!(it.index, start + 1);
    assert_eq!(it.bytes_skipped, bs + g);
    assert_eq!(it.bytes_processed, bp + g + mlen);
    assert_eq!(it.detected_storage_header, storage);
    assert_eq!(it.detected_serial_header, !storage);
    let b = it.next();
    assert!(b.is_none());
    // the short tail stays unconsumed (storage mode; in serial mode at most the bytes that cannot start a message are skipped)
    assert!(it.bytes_processed <= bp + N);
    assert!(it.bytes_processed - bp >= g + mlen);
    assert_eq!(it.index, start + 1);
    kani::cover!(bp > 1000 && start > 1000, "arbitrary start state");
    std::mem::forget(a);
}

macro_rules! iter_h {
    ($name:ident, $n:expr, $storage:expr, $mode:expr, $g:expr, $t:expr, $unw:expr) => {
        #[kani::proof]
        #[kani::unwind($unw)]
        #[kani::stub(alloc::fmt::format, fmt_stub)]
        fn $name() {
            iter_step::<$n>($storage, $mode, $g, $t);
        }
    };
}
// storage framing: from "nothing detected" and from "storage detected"
iter_h!(c01_it_st_m0_g0_t2, 22, true, 0, 0, 2, 30);
iter_h!(c01_it_st_m0_g1_t2, 23, true, 0, 1, 2, 30);
iter_h!(c01_it_st_m1_g0_t2, 22, true, 1, 0, 2, 30);
iter_h!(c01_it_st_m1_g1_t2, 23, true, 1, 1, 2, 30);
iter_h!(c01_it_st_m1_g2_t3, 25, true, 1, 2, 3, 30);
iter_h!(c01_it_st_m1_g3_t2, 25, true, 1, 3, 2, 30);
// serial framing: from "nothing detected" (needs >= 20 bytes in the buffer before the fix) and from "serial detected"
iter_h!(c01_it_se_m0_g0_t2, 10, false, 0, 0, 2, 30);
iter_h!(c01_it_se_m0_g0_t0, 8, false, 0, 0, 0, 30);
iter_h!(c01_it_se_m2_g0_t2, 10, false, 2, 0, 2, 30);
iter_h!(c01_it_se_m2_g1_t2, 11, false, 2, 1, 2, 30);
iter_h!(c01_it_se_m2_g3_t3, 14, false, 2, 3, 3, 30);

/// C03-U1: one next() on ANY buffer (symbolic length <= N) from each flag state never panics, keeps
/// bytes_processed within the input and bytes_skipped <= bytes_processed.
fn iter_any<const N: usize>(mode: u8) {
    let data: [u8; N] = kani::any();
    let len: usize = kani::any();
    kani::assume(len <= N);
    let mut it = iter_in_state(&data[..len], mode, 5, 0, 0);
    let a = it.next();
    assert!(it.bytes_processed <= len);
    assert!(it.bytes_skipped <= it.bytes_processed);
    if let Some(m) = &a {
        assert_eq!(m.index, 5);
        assert_eq!(it.index, 6);
    } else {
        assert_eq!(it.index, 5);
    }
    kani::cover!(a.is_some());
    kani::cover!(a.is_none() && it.bytes_skipped > 0);
    std::mem::forget(a);
}
#[kani::proof]
#[kani::unwind(30)]
#[kani::stub(alloc::fmt::format, fmt_stub)]
fn c03_u1_iter_any_storage_22() {
    iter_any::<22>(1);
}
#[kani::proof]
#[kani::unwind(30)]
#[kani::stub(alloc::fmt::format, fmt_stub)]
fn c03_u1_iter_any_serial_10() {
    iter_any::<10>(2);
}
