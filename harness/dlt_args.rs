// C18 / C03-U2 — verbose payload encoders -> DltMessageArgIterator (child module of `dlt`).
use super::*;
use crate::utils::payload_from_args;

/// a verbose message with the given payload; all message construction is direct (no Vec growth besides the payload)
fn verb_msg(big_endian: bool, verbose: bool, noar: u8, payload: Vec<u8>) -> DltMessage {
    DltMessage {
        index: 1,
        reception_time_us: 0,
        ecu: DltChar4::from_buf(b"ECU1"),
        timestamp_dms: 0,
        standard_header: DltStandardHeader { htyp: 0x21 | if big_endian { DLT_STD_HDR_BIG_ENDIAN } else { 0 }, mcnt: 0, len: 0 },
        extended_header: Some(DltExtendedHeader {
            verb_mstp_mtin: if verbose { 0x41 } else { 0x40 },
            noar,
            apid: DltChar4::from_buf(b"APID"),
            ctid: DltChar4::from_buf(b"CTID"),
        }),
        payload,
        payload_text: None,
        lifecycle: 0,
    }
}

/// kind -> (type_info, fixed length or None for the variable-length kinds)
fn kind_info(kind: u8) -> (u32, Option<usize>) {
    match kind {
        0 => (DLT_TYPE_INFO_BOOL | DLT_TYLE_8BIT as u32, Some(1)),
        1 => (DLT_TYPE_INFO_UINT | DLT_TYLE_8BIT as u32, Some(1)),
        2 => (DLT_TYPE_INFO_UINT | DLT_TYLE_16BIT as u32, Some(2)),
        3 => (DLT_TYPE_INFO_UINT | DLT_TYLE_32BIT as u32, Some(4)),
        4 => (DLT_TYPE_INFO_UINT | DLT_TYLE_64BIT as u32, Some(8)),
        5 => (DLT_TYPE_INFO_SINT | DLT_TYLE_8BIT as u32, Some(1)),
        6 => (DLT_TYPE_INFO_SINT | DLT_TYLE_16BIT as u32, Some(2)),
        7 => (DLT_TYPE_INFO_SINT | DLT_TYLE_32BIT as u32, Some(4)),
        8 => (DLT_TYPE_INFO_SINT | DLT_TYLE_64BIT as u32, Some(8)),
        9 => (DLT_TYPE_INFO_FLOA | DLT_TYLE_32BIT as u32, Some(4)),
        10 => (DLT_TYPE_INFO_FLOA | DLT_TYLE_64BIT as u32, Some(8)),
        11 => (DLT_TYPE_INFO_STRG | DLT_SCOD_UTF8, None),
        12 => (DLT_TYPE_INFO_STRG | DLT_SCOD_ASCII, None),
        _ => (DLT_TYPE_INFO_RAWD, None),
    }
}
const NKINDS: u8 = 14;

/// V1 agreement for utils::payload_from_args: K arguments of symbolic kind (variable-length ones 0..3 bytes), raw bytes
/// symbolic, both byte orders: the iterator returns exactly K arguments with the same type info and raw bytes, then None.
fn v1_payload_from_args<const K: usize>() {
    let big: bool = kani::any();
    let raw: [[u8; 8]; K] = kani::any();
    let kinds: [u8; K] = kani::any();
    let vlen: [usize; K] = kani::any();
    let mut tis = [0u32; K];
    let mut lens = [0usize; K];
    let mut i = 0;
    let mut empty_var = false;
    while i < K {
        kani::assume(kinds[i] < NKINDS && vlen[i] <= 3);
        let (ti, fixed) = kind_info(kinds[i]);
        tis[i] = ti;
        lens[i] = match fixed {
            Some(l) => l,
            None => vlen[i],
        };
        if fixed.is_none() && vlen[i] == 0 {
            empty_var = true;
        }
        i += 1;
    }
    if kf::C18_EMPTY_STRG_RAWD_NO_LENGTH {
        kani::assume(!empty_var);
    }
    // K <= 3: build the argument array without a loop over a Vec
    let a0 = DltArg { type_info: tis[0], is_big_endian: big, payload_raw: &raw[0][..lens[0]] };
    let a1 = DltArg { type_info: tis[1 % K], is_big_endian: big, payload_raw: &raw[1 % K][..lens[1 % K]] };
    let a2 = DltArg { type_info: tis[2 % K], is_big_endian: big, payload_raw: &raw[2 % K][..lens[2 % K]] };
    let all = [a0, a1, a2];
    let payload = payload_from_args(&all[..K]);
    let m = verb_msg(big, true, K as u8, payload);
    let mut it = m.into_iter();
    let mut n = 0;
    while n < K {
        let a = it.next();
        assert!(a.is_some());
        let a = a.unwrap();
        assert_eq!(a.type_info, tis[n]);
        assert_eq!(a.is_big_endian, big);
        assert_eq!(a.payload_raw.len(), lens[n]);
        let j: usize = kani::any();
        if j < lens[n] {
            assert_eq!(a.payload_raw[j], raw[n][j]);
        }
        n += 1;
    }
    assert!(it.next().is_none());
    kani::cover!(big && kinds[0] >= 11 && lens[0] == 3, "big endian, variable-length first argument");
    kani::cover!(empty_var || kf::C18_EMPTY_STRG_RAWD_NO_LENGTH, "an empty string / raw argument");
    std::mem::forget(m);
}

#[kani::proof]
#[kani::unwind(10)]
fn c18_v1_pfa_k1() {
    v1_payload_from_args::<1>();
}
#[kani::proof]
#[kani::unwind(10)]
fn c18_v1_pfa_k2() {
    v1_payload_from_args::<2>();
}
// (K = 3 with symbolic kinds exceeds 30 GB: not registered)

/// witness for the known-finding role c18_empty_strg_rawd_no_length (run only while that entry is open)
#[kani::proof]
#[kani::unwind(10)]
fn c18_v1_witness_empty_strg() {
    let big: bool = kani::any();
    let args = [DltArg { type_info: DLT_TYPE_INFO_RAWD, is_big_endian: big, payload_raw: &[] },
        DltArg { type_info: DLT_TYPE_INFO_UINT | DLT_TYLE_8BIT as u32, is_big_endian: big, payload_raw: &[7] }];
    let payload = payload_from_args(&args);
    let m = verb_msg(big, true, 2, payload);
    let mut it = m.into_iter();
    let a = it.next();
    assert!(a.is_some() && a.unwrap().payload_raw.is_empty());
    let b = it.next();
    assert!(b.is_some() && b.unwrap().payload_raw.len() == 1);
    std::mem::forget(m);
}

/// V1 agreement for the serde Serializer (host byte order): one value per supported kind, chained with a second value
fn ser_one(s: &mut crate::serde_verb_payload::Serializer, kind: u8, v: u64, sbytes: &[u8; 3], slen: usize) -> (u32, usize) {
    use crate::serde_verb_payload::add_to_serializer as add;
    let r = match kind {
        0 => add(s, &(v & 1 == 1)),
        1 => add(s, &(v as u8)),
        2 => add(s, &(v as u16)),
        3 => add(s, &(v as u32)),
        4 => add(s, &v),
        5 => add(s, &(v as i8)),
        6 => add(s, &(v as i16)),
        7 => add(s, &(v as i32)),
        8 => add(s, &(v as i64)),
        9 => add(s, &f32::from_bits(v as u32)),
        10 => add(s, &f64::from_bits(v)),
        11 => add(s, &unsafe { std::str::from_utf8_unchecked(&sbytes[..slen]) }), // bytes are assumed valid UTF-8 (valid_utf8_3); skips std's UTF-8 validator (> 20 min in CBMC)
        12 => add(s, &crate::serde_verb_payload::DltVerbArgTypeWrapper::DltScodAscii(serde_bytes::Bytes::new(&sbytes[..slen]))),
        _ => add(s, &serde_bytes::Bytes::new(&sbytes[..slen])),
    };
    assert!(r.is_ok());
    let (ti, fixed) = kind_info(kind);
    // a UTF-8 string is written with its terminating NUL
    (ti, match fixed { Some(l) => l, None => slen + if kind == 11 { 1 } else { 0 } })
}

/// well-formed UTF-8 (Unicode Table 3-7) for strings of at most 3 bytes
fn valid_utf8_3(b: &[u8; 3], l: usize) -> bool {
    fn a(x: u8) -> bool {
        x < 0x80
    }
    fn c(x: u8) -> bool {
        x >= 0x80 && x <= 0xbf
    }
    fn two(x: u8, y: u8) -> bool {
        x >= 0xc2 && x <= 0xdf && c(y)
    }
    fn three(x: u8, y: u8, z: u8) -> bool {
        c(z) && ((x == 0xe0 && y >= 0xa0 && y <= 0xbf) || (((x >= 0xe1 && x <= 0xec) || x == 0xee || x == 0xef) && c(y)) || (x == 0xed && y >= 0x80 && y <= 0x9f))
    }
    match l {
        0 => true,
        1 => a(b[0]),
        2 => (a(b[0]) && a(b[1])) || two(b[0], b[1]),
        3 => (a(b[0]) && a(b[1]) && a(b[2])) || (two(b[0], b[1]) && a(b[2])) || (a(b[0]) && two(b[1], b[2])) || three(b[0], b[1], b[2]),
        _ => false,
    }
}

/// kinds concrete (one solver query per kind / kind pair: a symbolic kind makes CBMC explore 14 serializer paths per
/// argument at once and did not finish in 40 min), values and string bytes symbolic
fn v1_serializer<const K: usize>(kinds: [u8; K]) {
    v1_serializer_len::<K>(kinds, None)
}
/// `fixed_len`: string/raw length concrete (the `_l2`/`_l3` harnesses: with a symbolic length CBMC also explores std's chunked
/// paths for long strings in any length-dependent std call, e.g. chars().count())
fn v1_serializer_len<const K: usize>(kinds: [u8; K], fixed_len: Option<usize>) {
    let vals: [u64; K] = kani::any();
    let sb: [[u8; 3]; K] = kani::any();
    let sl: [usize; K] = match fixed_len {
        Some(l) => [l; K],
        None => kani::any(),
    };
    let mut s = crate::serde_verb_payload::Serializer { output: Vec::with_capacity(64) };
    let mut tis = [0u32; K];
    let mut lens = [0usize; K];
    let mut i = 0;
    while i < K {
        kani::assume(sl[i] <= 3);
        if kinds[i] == 11 {
            // the &str argument: every VALID UTF-8 string of at most 3 bytes (1-, 2- and 3-byte code points; added after seeded change
            // C18-8 - before, only ASCII). Validity is assumed constructively, so from_utf8_unchecked below is sound.
            kani::assume(valid_utf8_3(&sb[i], sl[i]));
        }
        let (ti, l) = ser_one(&mut s, kinds[i], vals[i], &sb[i], sl[i]);
        tis[i] = ti;
        lens[i] = l;
        i += 1;
    }
    let host_big = cfg!(target_endian = "big");
    let m = verb_msg(host_big, true, K as u8, s.output);
    let mut it = m.into_iter();
    let mut n = 0;
    while n < K {
        let a = it.next();
        assert!(a.is_some());
        let a = a.unwrap();
        assert_eq!(a.type_info, tis[n]);
        assert_eq!(a.payload_raw.len(), lens[n]);
        // raw value: fixed kinds little endian on this host
        if kinds[n] >= 1 && kinds[n] <= 10 {
            let j: usize = kani::any();
            if j < lens[n] {
                assert_eq!(a.payload_raw[j], vals[n].to_le_bytes()[j]);
            }
        } else if kinds[n] == 0 {
            assert_eq!(a.payload_raw[0], (vals[n] & 1) as u8);
        } else {
            let j: usize = kani::any();
            if j < sl[n] {
                assert_eq!(a.payload_raw[j], sb[n][j]);
            }
            if kinds[n] == 11 {
                assert_eq!(a.payload_raw[sl[n]], 0);
            }
        }
        n += 1;
    }
    assert!(it.next().is_none());
    kani::cover!(sl[0] == 0 || fixed_len.is_some(), "empty string / value path reached");
    kani::cover!(kinds[0] != 11 || (sl[0] >= 2 && sb[0][0] >= 0x80), "first argument not a &str, or a &str with a multi-byte code point");
    std::mem::forget(m);
}

macro_rules! ser_h {
    ($name:ident, $k:expr, $kinds:expr) => {
        #[kani::proof]
        #[kani::unwind(24)] // the enum name "DltVerbArgTypeWrapper" (21 bytes) is compared byte-wise in the ASCII wrapper path
        fn $name() {
            v1_serializer::<$k>($kinds);
        }
    };
}
macro_rules! ser_len_h {
    ($name:ident, $k:expr, $kinds:expr, $len:expr) => {
        #[kani::proof]
        #[kani::unwind(24)]
        fn $name() {
            v1_serializer_len::<$k>($kinds, Some($len));
        }
    };
}
ser_len_h!(c18_v1_ser_str_l2, 1, [11], 2);
ser_len_h!(c18_v1_ser_str_l3, 1, [11], 3);
ser_len_h!(c18_v1_ser_str_l3_u8, 2, [11, 1], 3);
// @generated serializer kind shapes
ser_h!(c18_v1_ser_bool, 1, [0]);
ser_h!(c18_v1_ser_u8, 1, [1]);
ser_h!(c18_v1_ser_u16, 1, [2]);
ser_h!(c18_v1_ser_u32, 1, [3]);
ser_h!(c18_v1_ser_u64, 1, [4]);
ser_h!(c18_v1_ser_i8, 1, [5]);
ser_h!(c18_v1_ser_i16, 1, [6]);
ser_h!(c18_v1_ser_i32, 1, [7]);
ser_h!(c18_v1_ser_i64, 1, [8]);
ser_h!(c18_v1_ser_f32, 1, [9]);
ser_h!(c18_v1_ser_f64, 1, [10]);
ser_h!(c18_v1_ser_str, 1, [11]);
ser_h!(c18_v1_ser_ascii, 1, [12]);
ser_h!(c18_v1_ser_raw, 1, [13]);
ser_h!(c18_v1_ser_str_u32, 2, [11, 3]);
ser_h!(c18_v1_ser_raw_bool, 2, [13, 0]);
ser_h!(c18_v1_ser_u16_str, 2, [2, 11]);
ser_h!(c18_v1_ser_ascii_i64, 2, [12, 8]);
ser_h!(c18_v1_ser_f64_raw, 2, [10, 13]);

/// C03-U2 / C18-V2: the iterator on an ARBITRARY payload (symbolic length <= N; verbose or not; both byte orders; so every
/// truncation and every corruption of type/length fields of any valid payload is included): terminates within N/4+1 args,
/// every returned slice lies inside the payload, the iterator's index never overflows.
fn u2_any_payload<const N: usize>() {
    let pl: [u8; N] = kani::any();
    let plen: usize = kani::any();
    kani::assume(plen <= N);
    let m = verb_msg(kani::any(), kani::any(), kani::any(), pl[..plen].to_vec());
    let base = m.payload.as_ptr() as usize;
    let mut it = m.into_iter();
    let mut n = 0;
    let mut k = 0;
    while k < N / 4 + 2 {
        match it.next() {
            Some(a) => {
                let p = a.payload_raw.as_ptr() as usize;
                assert!(p >= base && p + a.payload_raw.len() <= base + plen);
                assert!(a.is_big_endian == m.is_big_endian());
                n += 1;
            }
            None => break,
        }
        k += 1;
    }
    assert!(n <= N / 4 + 1);
    kani::cover!(n >= 2, "two arguments decoded from arbitrary bytes");
    kani::cover!(n == 0 && plen >= 6, "malformed first argument");
    std::mem::forget(m);
}
#[kani::proof]
#[kani::unwind(8)]
fn c03_u2_arg_iter_any_12() {
    u2_any_payload::<12>();
}
#[kani::proof]
#[kani::unwind(8)]
fn c03_u2_arg_iter_any_16() {
    u2_any_payload::<16>();
}

/// C18-V2 prefix under truncation: a valid 2-argument payload cut at a symbolic point decodes to a PREFIX of the
/// original argument sequence (same type info, same bytes), never to something else.
#[kani::proof]
#[kani::unwind(10)]
fn c18_v2_truncation_prefix() {
    let big: bool = kani::any();
    let raw: [[u8; 8]; 2] = kani::any();
    let kinds: [u8; 2] = kani::any();
    let vlen: [usize; 2] = kani::any();
    kani::assume(kinds[0] < NKINDS && kinds[1] < NKINDS && vlen[0] >= 1 && vlen[0] <= 3 && vlen[1] >= 1 && vlen[1] <= 3);
    let (t0, f0) = kind_info(kinds[0]);
    let (t1, f1) = kind_info(kinds[1]);
    let (l0, l1) = (f0.unwrap_or(vlen[0]), f1.unwrap_or(vlen[1]));
    let args = [DltArg { type_info: t0, is_big_endian: big, payload_raw: &raw[0][..l0] },
        DltArg { type_info: t1, is_big_endian: big, payload_raw: &raw[1][..l1] }];
    let mut payload = payload_from_args(&args);
    let full = payload.len();
    let cut: usize = kani::any();
    kani::assume(cut <= full);
    payload.truncate(cut);
    let m = verb_msg(big, true, 2, payload);
    let mut it = m.into_iter();
    let a = it.next();
    if let Some(a) = &a {
        assert_eq!(a.type_info, t0);
        assert_eq!(a.payload_raw.len(), l0);
        let j: usize = kani::any();
        if j < l0 {
            assert_eq!(a.payload_raw[j], raw[0][j]);
        }
        if let Some(b) = it.next() {
            assert_eq!(cut, full); // the second argument only if nothing was cut
            assert_eq!(b.type_info, t1);
            assert_eq!(b.payload_raw.len(), l1);
        }
    }
    kani::cover!(a.is_some() && cut < full, "first argument survives the cut");
    kani::cover!(a.is_none() && cut > 4, "cut inside the first argument");
    std::mem::forget(m);
}
