// Lifecycle step lemmas (child module of `lifecycle`: private fields of Lifecycle / ResumeLcInfo visible).
// Serves C03 (U4, U6), C05, C07, C08. See DESIGN.md §2.
use super::*;
use crate::dlt::{DltExtendedHeader, DltStandardHeader};

// ---------------------------------------------------------------------------------------------
// environment: the software-version text decoder reaches regex/encoding_rs (kani-compiler ICE) -> stub.
// The stub draws its nondeterminism from a static that the harness initialises FIRST, so the sequence of
// kani::any() calls is identical with and without the stub (needed for native playback with the real fn).
// ---------------------------------------------------------------------------------------------
static mut SWV_SOME: bool = false;
pub fn swv_stub(_is_big_endian: bool, _payload: &[u8]) -> Option<String> {
    if unsafe { SWV_SOME } {
        Some(String::new())
    } else {
        None
    }
}

const TS_MAX_US: u64 = u32::MAX as u64 * 100;
/// largest reception time a storage header can carry: u32 seconds, u32 "microseconds" field
const MAX_RT: u64 = u32::MAX as u64 * 1_000_000 + u32::MAX as u64;

fn ecu_of(sel: bool) -> DltChar4 {
    if sel {
        DltChar4::from_buf(b"ECU1")
    } else {
        DltChar4::from_buf(b"E2\0\0")
    }
}

fn any_lc() -> Lifecycle {
    let has_resume: bool = kani::any();
    Lifecycle {
        id: kani::any(),
        ecu: ecu_of(kani::any()),
        nr_msgs: kani::any(),
        nr_control_req_msgs: kani::any(),
        start_time: kani::any(),
        initial_start_time: kani::any(),
        min_timestamp_us: kani::any(),
        max_timestamp_us: kani::any(),
        last_reception_time: kani::any(),
        resume_lc: if has_resume {
            Some(ResumeLcInfo { id: kani::any(), max_timestamp_us: kani::any(), start_time: kani::any() })
        } else {
            None
        },
        sw_version: if kani::any() { Some(String::new()) } else { None },
        lcs_w_refresh_idx: 0,
    }
}

/// Representation invariant I of a live (not merged-away) lifecycle record. Established by `new`,
/// preserved by `update` and `merge` (both asserted below), hence true after any history.
fn lc_inv(lc: &Lifecycle) -> bool {
    lc.id != 0
        && lc.nr_msgs >= 1
        && lc.nr_control_req_msgs <= lc.nr_msgs
        && lc.min_timestamp_us <= lc.max_timestamp_us
        && lc.max_timestamp_us <= TS_MAX_US
        && lc.start_time <= lc.last_reception_time
        && lc.last_reception_time <= MAX_RT
        && match &lc.resume_lc {
            Some(r) => r.id != 0 && r.max_timestamp_us <= TS_MAX_US && r.start_time <= MAX_RT,
            None => true,
        }
}

fn any_msg(pl: &[u8]) -> DltMessage {
    let secs: u32 = kani::any();
    let micros: u32 = kani::any();
    let has_ext: bool = kani::any();
    let htyp: u8 = kani::any();
    DltMessage {
        index: kani::any(),
        reception_time_us: secs as u64 * 1_000_000 + micros as u64,
        ecu: ecu_of(kani::any()),
        timestamp_dms: kani::any(),
        standard_header: DltStandardHeader { htyp, mcnt: kani::any(), len: 4 },
        extended_header: if has_ext {
            Some(DltExtendedHeader {
                verb_mstp_mtin: kani::any(),
                noar: kani::any(),
                apid: DltChar4::from_buf(b"APID"),
                ctid: DltChar4::from_buf(b"CTID"),
            })
        } else {
            None
        },
        payload: pl.to_vec(),
        payload_text: None,
        lifecycle: 0,
    }
}

// ---------------------------------------------------------------------------------------------
// C03-U4 / C05: one `update` step from ANY record satisfying I with ANY message (payload <= PL bytes)
//  - no panic / overflow / out-of-bounds (Kani's built-in checks on the real code)
//  - the message is assigned: None => msg.lifecycle == self.id (!= 0), count + 1, ecu of the record untouched
//                             Some(n) => msg.lifecycle == n.id, n.ecu == msg.ecu, n.nr_msgs == 1, old count untouched
//  - I holds again for the record (and for the new one)
// ---------------------------------------------------------------------------------------------
fn update_step<const PL: usize>() {
    unsafe { SWV_SOME = kani::any() };
    let mut lc = any_lc();
    kani::assume(lc_inv(&lc));
    kani::assume(lc.nr_msgs < u32::MAX); // 2^32 messages in one lifecycle: outside the claim
    let pl: [u8; PL] = kani::any();
    let plen: usize = kani::any();
    kani::assume(plen <= PL);
    let mut msg = any_msg(&pl[..plen]);
    let (old_id, old_n, old_ecu, old_ctrl) = (lc.id, lc.nr_msgs, lc.ecu, lc.nr_control_req_msgs);
    let was_ctrl_resp_verbose = msg.is_ctrl_response() && msg.is_verbose();
    let r = lc.update(&mut msg, 60_000_000);
    assert!(lc.ecu == old_ecu);
    assert_eq!(lc.id, old_id);
    match &r {
        None => {
            assert_eq!(msg.lifecycle, old_id);
            assert_eq!(lc.nr_msgs, old_n + 1);
            assert!(lc.nr_control_req_msgs == old_ctrl || (msg.is_ctrl_request() && lc.nr_control_req_msgs == old_ctrl + 1));
        }
        Some(n) => {
            assert!(n.id != 0);
            assert_eq!(msg.lifecycle, n.id);
            assert_eq!(lc.nr_msgs, old_n);
            assert_eq!(n.nr_msgs, 1);
            assert!(n.ecu == msg.ecu);
            assert!(!msg.is_ctrl_request());
            assert!(lc_inv(n));
            if let Some(rl) = &n.resume_lc {
                assert_eq!(rl.id, old_id);
            }
        }
    }
    assert!(lc_inv(&lc));
    // the derived getters must not overflow on any reachable record
    let _ = (lc.end_time(), lc.resume_time(), lc.resume_start_time(), lc.suspend_duration(), lc.only_control_requests());
    kani::cover!(r.is_some(), "a new lifecycle was created");
    kani::cover!(r.is_some() && r.as_ref().unwrap().resume_lc.is_some(), "a resume lifecycle was created");
    kani::cover!(r.is_none() && msg.is_ctrl_response() && plen >= 4, "control response joined (sw-version path entered)");
    kani::cover!(r.is_none() && was_ctrl_resp_verbose && plen < 4, "verbose control response with a short first argument");
    std::mem::forget(r);
    std::mem::forget(msg);
    std::mem::forget(lc);
}

#[kani::proof]
#[kani::unwind(10)]
#[kani::stub(crate::dlt::control_msgs::parse_ctrl_sw_version_payload, swv_stub)]
fn lc_update_step_pl6() {
    update_step::<6>();
}

#[kani::proof]
#[kani::unwind(14)]
#[kani::stub(crate::dlt::control_msgs::parse_ctrl_sw_version_payload, swv_stub)]
fn lc_update_step_pl10() {
    update_step::<10>();
}

/// `Lifecycle::new` on any message: I holds, message assigned, start = reception - (valid) timestamp.
#[kani::proof]
#[kani::unwind(6)]
fn lc_new_step() {
    let pl: [u8; 2] = kani::any();
    let mut msg = any_msg(&pl);
    let lc = Lifecycle::new(&mut msg);
    assert!(lc_inv(&lc));
    assert_eq!(msg.lifecycle, lc.id);
    assert!(lc.ecu == msg.ecu);
    assert_eq!(lc.nr_msgs, 1);
    assert!(lc.start_time <= msg.reception_time_us);
    assert_eq!(lc.last_reception_time, msg.reception_time_us);
    let _ = (lc.end_time(), lc.resume_time(), lc.resume_start_time(), lc.suspend_duration());
    kani::cover!(lc.min_timestamp_us > 0);
    kani::cover!(msg.is_ctrl_request());
    std::mem::forget(msg);
    std::mem::forget(lc);
}

// ---------------------------------------------------------------------------------------------
// C07 (b) / C03-U4: merge arithmetic
// ---------------------------------------------------------------------------------------------
#[kani::proof]
fn lc_merge_step() {
    let mut a = any_lc();
    let mut b = any_lc();
    kani::assume(lc_inv(&a) && lc_inv(&b) && a.id != b.id);
    kani::assume((a.nr_msgs as u64) + (b.nr_msgs as u64) <= u32::MAX as u64); // > 2^32 messages: outside
    let (an, bn, ac, bc) = (a.nr_msgs, b.nr_msgs, a.nr_control_req_msgs, b.nr_control_req_msgs);
    let (amin, bmin, amax, bmax, ast, bst, alr, blr) = (
        a.min_timestamp_us, b.min_timestamp_us, a.max_timestamp_us, b.max_timestamp_us, a.start_time, b.start_time,
        a.last_reception_time, b.last_reception_time);
    let (aid, bid) = (a.id, b.id);
    a.merge(&mut b);
    assert_eq!(a.id, aid);
    assert_eq!(b.id, bid);
    assert_eq!(a.nr_msgs, an + bn);
    assert_eq!(a.nr_control_req_msgs, ac + bc);
    assert_eq!(b.nr_msgs, 0);
    assert_eq!(b.was_merged(), Some(aid));
    assert_eq!(a.was_merged(), None);
    assert_eq!(a.min_timestamp_us, if bmin < amin { bmin } else { amin });
    assert_eq!(a.max_timestamp_us, if bmax > amax { bmax } else { amax });
    assert_eq!(a.start_time, if bst < ast { bst } else { ast });
    assert_eq!(a.last_reception_time, if blr > alr { blr } else { alr });
    assert!(lc_inv(&a));
    kani::cover!(bst < ast);
    kani::cover!(bmax > amax);
    std::mem::forget(a);
    std::mem::forget(b);
}

// ---------------------------------------------------------------------------------------------
// C07 (a) / C03-U6: the listing comparator. `extracted_cmp` is GENERATED by the runner from the closure
// passed to `sorted_lcs.sort_by(...)` in get_sorted_lifecycles_as_vec (textual cut, see DESIGN §1.1).
// ---------------------------------------------------------------------------------------------
fn any_lc_with_resume_to(ids: [u32; 3], own: usize) -> Lifecycle {
    // three records a, b, c with distinct non-zero ids; a resume link points to one of the OTHER two or to an
    // unrelated lifecycle; the link's start_time snapshot is arbitrary (start times move after the snapshot)
    let mut lc = any_lc();
    lc.id = ids[own];
    if let Some(r) = &mut lc.resume_lc {
        kani::assume(r.id != ids[own]);
    }
    lc
}

fn cmp_setup() -> (Lifecycle, Lifecycle, Lifecycle) {
    let ids: [u32; 3] = kani::any();
    kani::assume(ids[0] != 0 && ids[1] != 0 && ids[2] != 0);
    kani::assume(ids[0] != ids[1] && ids[1] != ids[2] && ids[0] != ids[2]);
    let a = any_lc_with_resume_to(ids, 0);
    let b = any_lc_with_resume_to(ids, 1);
    let c = any_lc_with_resume_to(ids, 2);
    // resume links are acyclic by construction of the detector (a resume link always points to an OLDER record:
    // ids are handed out increasingly); assume that
    kani::assume(a.resume_lc.as_ref().map_or(true, |r| r.id < a.id));
    kani::assume(b.resume_lc.as_ref().map_or(true, |r| r.id < b.id));
    kani::assume(c.resume_lc.as_ref().map_or(true, |r| r.id < c.id));
    (a, b, c)
}

/// strict weak order: irreflexive, asymmetric, transitive, incomparability transitive. This is what
/// `slice::sort_by` requires to return each element once without panicking.
#[kani::proof]
fn lc_cmp_strict_weak_order() {
    use std::cmp::Ordering::*;
    let (a, b, c) = cmp_setup();
    assert!(extracted_cmp(&a, &a) == Equal);
    let (ab, ba, bc, ac) = (extracted_cmp(&a, &b), extracted_cmp(&b, &a), extracted_cmp(&b, &c), extracted_cmp(&a, &c));
    // asymmetry / consistency of the two directions
    assert!((ab == Less) == (ba == Greater));
    assert!((ab == Equal) == (ba == Equal));
    // transitivity of <
    if ab == Less && bc == Less {
        assert!(ac == Less);
    }
    // transitivity of incomparability
    if ab == Equal && bc == Equal {
        assert!(ac == Equal);
    }
    kani::cover!(ab == Less && bc == Less);
    kani::cover!(a.resume_lc.is_some() && ab == Greater);
    std::mem::forget((a, b, c));
}

/// The listing itself (generated `listing_sort` = the real statements of get_sorted_lifecycles_as_vec): N records in
/// ARBITRARY input order (evmap iteration order is unspecified). The result contains each lifecycle exactly once,
/// never places a resumed lifecycle before the one it resumes and, when no record has a resume link into the set,
/// is ordered by start time.
#[kani::proof]
#[kani::unwind(8)]
fn lc_listing_n3() {
    let (a, b, c) = cmp_setup();
    let recs = [&a, &b, &c];
    let p: [usize; 3] = kani::any();
    kani::assume(p[0] < 3 && p[1] < 3 && p[2] < 3 && p[0] != p[1] && p[1] != p[2] && p[0] != p[2]);
    let mut v: Vec<&Lifecycle> = Vec::with_capacity(3);
    v.push(recs[p[0]]);
    v.push(recs[p[1]]);
    v.push(recs[p[2]]);
    let out = listing_sort(v);
    assert_eq!(out.len(), 3);
    // each exactly once
    assert!(out[0].id != out[1].id && out[1].id != out[2].id && out[0].id != out[2].id);
    let is_in = |id: u32| id == a.id || id == b.id || id == c.id;
    assert!(is_in(out[0].id) && is_in(out[1].id) && is_in(out[2].id));
    // resumed never before its origin
    let resumes = |x: &Lifecycle, y: &Lifecycle| x.resume_lc.as_ref().map_or(false, |r| r.id == y.id);
    assert!(!resumes(out[0], out[1]));
    assert!(!resumes(out[0], out[2]));
    assert!(!resumes(out[1], out[2]));
    // without resume links into the set: start-time order
    let linked = |x: &Lifecycle| x.resume_lc.as_ref().map_or(false, |r| is_in(r.id));
    if !linked(&a) && !linked(&b) && !linked(&c) {
        assert!(out[0].start_time <= out[1].start_time && out[1].start_time <= out[2].start_time);
    }
    kani::cover!(linked(&c) && resumes(&c, &b) && c.start_time < b.start_time, "resumed record with the earlier start");
    kani::cover!(linked(&c) && linked(&b), "chain of two resumes");
    kani::cover!(!linked(&a) && !linked(&b) && !linked(&c) && p[0] == 2, "no links, shuffled input");
    std::mem::forget(out);
    std::mem::forget((a, b, c));
}

// ---------------------------------------------------------------------------------------------
// C08: clean power cycles, step lemmas K1..K4 (see DESIGN.md §2, C08)
// ---------------------------------------------------------------------------------------------
fn clean_record(id: u32, s: u64, mints: u64, maxts: u64, last_rec: u64, n: u32, resume: Option<ResumeLcInfo>) -> Lifecycle {
    Lifecycle {
        id,
        ecu: DltChar4::from_buf(b"ECU1"),
        nr_msgs: n,
        nr_control_req_msgs: 0,
        start_time: s,
        initial_start_time: s,
        min_timestamp_us: mints,
        max_timestamp_us: maxts,
        last_reception_time: last_rec,
        resume_lc: resume,
        sw_version: None,
        lcs_w_refresh_idx: 0,
    }
}
fn clean_msg(rec: u64, ts_dms: u32) -> DltMessage {
    DltMessage {
        index: 1,
        reception_time_us: rec,
        ecu: DltChar4::from_buf(b"ECU1"),
        timestamp_dms: ts_dms,
        standard_header: DltStandardHeader { htyp: 0x35, mcnt: 0, len: 4 }, // WEID|WTMS|EXT, version 1
        extended_header: Some(DltExtendedHeader {
            verb_mstp_mtin: 0x41, // verbose log info
            noar: 0,
            apid: DltChar4::from_buf(b"APID"),
            ctid: DltChar4::from_buf(b"CTID"),
        }),
        payload: Vec::new(),
        payload_text: None,
        lifecycle: 0,
    }
}

/// symbolic summary of "the record after some messages of boot b" (invariant S(b) of DESIGN §2/C08):
/// returns (record, boot+delay, maxts)
fn clean_summary() -> (Lifecycle, u64, u64, u64) {
    let b0: u64 = kani::any();
    let d0: u64 = kani::any();
    kani::assume(b0 <= 4_000_000_000_000_000 && d0 <= 100_000_000_000_000); // boot < year 2096, delay < 3 years
    let s = b0 + d0;
    let (x, y, z): (u32, u32, u32) = (kani::any(), kani::any(), kani::any());
    let (mints, maxts, ts_last) = (x as u64 * 100, y as u64 * 100, z as u64 * 100);
    kani::assume(mints <= maxts && ts_last <= maxts);
    let n: u32 = kani::any();
    kani::assume(n >= 1 && n < u32::MAX);
    // the record of boot b may carry a resume link to the previous boot's record (K3 may have set it)
    let resume = if kani::any() {
        let rs: u64 = kani::any();
        let rm: u32 = kani::any();
        kani::assume(rs <= s);
        Some(ResumeLcInfo { id: 6, max_timestamp_us: rm as u64 * 100, start_time: rs })
    } else {
        None
    };
    (clean_record(7, s, mints, maxts, s + ts_last, n, resume), s, maxts, d0)
}

/// K1: the first message of the first boot creates a record with S: start = boot + delay, one message.
#[kani::proof]
fn c08_k1_first_message() {
    let b0: u64 = kani::any();
    let d0: u64 = kani::any();
    kani::assume(b0 <= 4_000_000_000_000_000 && d0 <= 100_000_000_000_000);
    let ts: u32 = kani::any();
    let mut msg = clean_msg(b0 + d0 + ts as u64 * 100, ts);
    let lc = Lifecycle::new(&mut msg);
    assert_eq!(lc.start_time, b0 + d0);
    assert_eq!(lc.nr_msgs, 1);
    assert_eq!(lc.max_timestamp_us, ts as u64 * 100);
    assert_eq!(lc.min_timestamp_us, ts as u64 * 100);
    assert_eq!(lc.last_reception_time, b0 + d0 + ts as u64 * 100);
    assert_eq!(msg.lifecycle, lc.id);
    assert!(lc.resume_lc.is_none());
    if ts > 0 {
        assert_eq!(lc.end_time(), b0 + d0 + ts as u64 * 100);
    }
    kani::cover!(ts == 0);
    std::mem::forget(msg);
    std::mem::forget(lc);
}

/// K2: any further message of the SAME boot (any timestamp, any arrival order, same delay) joins, and S holds again:
/// start unchanged = boot + delay, max/min timestamps and count exact, end = start + largest timestamp.
#[kani::proof]
#[kani::stub(crate::dlt::control_msgs::parse_ctrl_sw_version_payload, swv_stub)]
fn c08_k2_same_boot() {
    let (mut lc, s, maxts, _d0) = clean_summary();
    let (mints, n) = (lc.min_timestamp_us, lc.nr_msgs);
    let had_resume = lc.resume_lc.is_some();
    let ts: u32 = kani::any();
    let t = ts as u64 * 100;
    let mut msg = clean_msg(s + t, ts);
    let r = lc.update(&mut msg, 60_000_000);
    assert!(r.is_none());
    assert_eq!(msg.lifecycle, 7);
    assert_eq!(lc.start_time, s);
    assert_eq!(lc.nr_msgs, n + 1);
    assert_eq!(lc.max_timestamp_us, if t > maxts { t } else { maxts });
    // the rest of the summary S(b) only as far as later steps need it (representation details such as the exact minimum or
    // the exact last reception time are not part of the C08 statement and are deliberately not pinned down)
    assert!(lc.min_timestamp_us <= lc.max_timestamp_us);
    assert!(lc.last_reception_time >= s && lc.last_reception_time <= s + lc.max_timestamp_us);
    if !had_resume {
        assert!(lc.resume_lc.is_none());
    }
    if lc.max_timestamp_us > 0 {
        assert_eq!(lc.end_time(), s + lc.max_timestamp_us);
    }
    kani::cover!(t > maxts);
    kani::cover!(t < mints);
    kani::cover!(had_resume);
    std::mem::forget(r);
    std::mem::forget(msg);
    std::mem::forget(lc);
}

/// the clean next-boot scenario; returns (record of boot b, first-in-stream message of boot b+1, in_known_region)
fn next_boot_scenario() -> (Lifecycle, DltMessage, bool, u64) {
    let (lc, s, maxts, d0) = clean_summary();
    let b0 = s - d0;
    let b1: u64 = kani::any();
    let d1: u64 = kani::any();
    // off-time >= 1 ms after the last activity of boot b
    kani::assume(b1 >= b0 + maxts + 1000 && b1 <= 8_000_000_000_000_000 && d1 <= 100_000_000_000_000);
    let ts: u32 = kani::any();
    let rec = b1 + ts as u64 * 100 + d1;
    // all messages of boot b precede, in reception time, every message of boot b+1
    kani::assume(rec >= s + maxts);
    let off = b1 - (b0 + maxts);
    // role of the open known finding: the next boot's transport delay is shorter than the previous boot's by at
    // least the off-time  (B' + d' <= B + d + maxts)
    let known_region = d1 + off <= d0;
    (lc, clean_msg(rec, ts), known_region, b1 + d1)
}

/// K3: the first message of the NEXT boot never joins the old record: a new lifecycle is created (resume flag or not),
/// with start = boot' + delay'. K4: the merge guard input of the detector is false for it (new.start > prev.end).
#[kani::proof]
#[kani::stub(crate::dlt::control_msgs::parse_ctrl_sw_version_payload, swv_stub)]
fn c08_k3_next_boot() {
    let (mut lc, mut msg, known_region, start1) = next_boot_scenario();
    if kf::C08_NEXT_BOOT_SHORTER_DELAY {
        kani::assume(!known_region);
    }
    let n = lc.nr_msgs;
    let r = lc.update(&mut msg, 60_000_000);
    assert!(r.is_some());
    let new = r.unwrap();
    assert_eq!(lc.nr_msgs, n);
    assert_eq!(new.nr_msgs, 1);
    assert_eq!(msg.lifecycle, new.id);
    assert_eq!(new.start_time, start1);
    // K4 (merge guard of the detector: lc2.start_time <= prev.end_time() && !lc2.is_resume() && ...)
    assert!(new.start_time > lc.end_time() || new.is_resume());
    kani::cover!(new.is_resume());
    kani::cover!(!new.is_resume());
    std::mem::forget(new);
    std::mem::forget(msg);
    std::mem::forget(lc);
}

/// witness of the open known finding: inside the region K3 fails (message of the next boot joins the old record)
#[kani::proof]
#[kani::stub(crate::dlt::control_msgs::parse_ctrl_sw_version_payload, swv_stub)]
fn c08_k3_witness_shorter_delay() {
    let (mut lc, mut msg, known_region, _start1) = next_boot_scenario();
    kani::assume(known_region);
    let r = lc.update(&mut msg, 60_000_000);
    assert!(r.is_some());
    std::mem::forget(r);
    std::mem::forget(msg);
    std::mem::forget(lc);
}
