// C11 — Filter::matches == conjunction of the specified criteria (child module of filter::filter_impl: private
// fields negate_match / at_load_time visible). Regex and payload-text criteria are never set, their call targets are
// stubbed only because code that *mentions* the regex crates crashes kani-compiler.
use super::*;
use crate::dlt::{DltChar4, DltExtendedHeader, DltMessage, DltStandardHeader};

pub fn re_bytes_stub(_r: &regex::bytes::Regex, _h: &[u8]) -> bool {
    false
}
pub fn re_str_stub(_r: &regex::Regex, _h: &str) -> bool {
    false
}
pub fn re_fancy_stub(_r: &fancy_regex::Regex, _h: &str) -> fancy_regex::Result<bool> {
    Ok(false)
}
pub fn pat_stub(_m: &DltMessage) -> Result<std::borrow::Cow<'_, str>, std::fmt::Error> {
    Ok(std::borrow::Cow::Borrowed(""))
}

fn any_c4() -> DltChar4 {
    DltChar4::from_buf(&kani::any::<[u8; 4]>())
}
fn any_opt_c4() -> Option<Char4OrRegex> {
    if kani::any() {
        Some(Char4OrRegex::DltChar4(any_c4()))
    } else {
        None
    }
}

fn any_filter(kind: FilterKind) -> Filter {
    let mut f = Filter::new(kind);
    f.enabled = kani::any();
    f.negate_match = kani::any();
    f.at_load_time = kani::any();
    f.ecu = any_opt_c4();
    f.apid = any_opt_c4();
    f.ctid = any_opt_c4();
    f.verb_mstp_mtin = if kani::any() { Some((kani::any(), kani::any())) } else { None };
    f.loglevel_min = if kani::any() { Some(kani::any()) } else { None };
    f.loglevel_max = if kani::any() { Some(kani::any()) } else { None };
    let nlc: u8 = kani::any();
    kani::assume(nlc <= 3);
    f.lifecycles = match nlc {
        0 => None,
        1 => Some(Vec::new()),
        2 => Some(vec![kani::any()]),
        _ => Some(vec![kani::any(), kani::any()]),
    };
    f
}

fn any_msg() -> DltMessage {
    let has_ext: bool = kani::any();
    DltMessage {
        index: kani::any(),
        reception_time_us: kani::any(),
        ecu: any_c4(),
        timestamp_dms: kani::any(),
        standard_header: DltStandardHeader { htyp: kani::any(), mcnt: kani::any(), len: 4 },
        extended_header: if has_ext {
            Some(DltExtendedHeader { verb_mstp_mtin: kani::any(), noar: kani::any(), apid: any_c4(), ctid: any_c4() })
        } else {
            None
        },
        payload: Vec::new(),
        payload_text: None,
        lifecycle: kani::any(),
    }
}

// ---- executable statement of the property (independent of the implementation's control flow) ----
fn id_holds(c: &Option<Char4OrRegex>, v: Option<[u8; 4]>) -> bool {
    match c {
        None => true, // criterion not specified
        Some(Char4OrRegex::DltChar4(d)) => match v {
            Some(x) => {
                let b = d.as_buf();
                x[0] == b[0] && x[1] == b[1] && x[2] == b[2] && x[3] == b[3]
            }
            None => false, // no extended header: application/context id criteria never hold
        },
        _ => false,
    }
}
fn arr(c: &DltChar4) -> [u8; 4] {
    let b = c.as_buf();
    [b[0], b[1], b[2], b[3]]
}
fn spec(f: &Filter, m: &DltMessage) -> bool {
    if !f.enabled {
        return false;
    }
    let vmm: Option<u8> = m.extended_header.as_ref().map(|e| e.verb_mstp_mtin);
    let c_ecu = id_holds(&f.ecu, Some(arr(&m.ecu)));
    let c_apid = id_holds(&f.apid, m.extended_header.as_ref().map(|e| arr(&e.apid)));
    let c_ctid = id_holds(&f.ctid, m.extended_header.as_ref().map(|e| arr(&e.ctid)));
    let c_type = match f.verb_mstp_mtin {
        None => true,
        Some((v, mask)) => match vmm {
            Some(x) => x & mask == v,
            None => false,
        },
    };
    // log level bounds apply to log messages (message type 0) only; level = upper nibble
    let c_min = match f.loglevel_min {
        None => true,
        Some(l) => match vmm {
            Some(x) => (x & 0x0e) == 0 && (x >> 4) >= l,
            None => false,
        },
    };
    let c_max = match f.loglevel_max {
        None => true,
        Some(l) => match vmm {
            Some(x) => (x & 0x0e) == 0 && (x >> 4) <= l,
            None => false,
        },
    };
    let c_lc = match &f.lifecycles {
        None => true,
        Some(l) => {
            let mut any = l.is_empty();
            let mut i = 0;
            while i < l.len() {
                if l[i] == m.lifecycle {
                    any = true;
                }
                i += 1;
            }
            any
        }
    };
    let all = c_ecu && c_apid && c_ctid && c_type && c_min && c_max && c_lc;
    all != f.negate_match
}

macro_rules! filter_stubs {
    ($(#[$a:meta])* fn $name:ident() $body:block) => {
        #[kani::proof]
        $(#[$a])*
        #[kani::stub(regex::bytes::Regex::is_match, re_bytes_stub)]
        #[kani::stub(regex::Regex::is_match, re_str_stub)]
        #[kani::stub(fancy_regex::Regex::is_match, re_fancy_stub)]
        #[kani::stub(crate::dlt::DltMessage::payload_as_text, pat_stub)]
        fn $name() $body
    };
}

filter_stubs! {
    #[kani::unwind(6)]
    fn c11_matches_eq_spec() {
        let f = any_filter(FilterKind::Positive);
        let m = any_msg();
        let r = f.matches(&m);
        assert_eq!(r, spec(&f, &m));
        kani::cover!(r && !f.negate_match && f.apid.is_some() && f.loglevel_min.is_some(), "positive match with apid and level criteria");
        kani::cover!(r && f.negate_match && m.extended_header.is_none() && f.ctid.is_some(), "negated filter matches message without extended header");
        kani::cover!(!r && f.enabled && f.lifecycles.is_some(), "rejected with lifecycle criterion present");
        std::mem::forget(f);
        std::mem::forget(m);
    }
}

filter_stubs! {
    #[kani::unwind(6)]
    fn c11_matches_kind_independent() {
        // the verdict does not depend on the filter kind or the at-load-time flag
        let mut f = any_filter(FilterKind::Positive);
        let m = any_msg();
        let r0 = f.matches(&m);
        let k: u8 = kani::any();
        f.kind = match k & 3 { 0 => FilterKind::Positive, 1 => FilterKind::Negative, 2 => FilterKind::Marker, _ => FilterKind::Event };
        f.at_load_time = !f.at_load_time;
        assert_eq!(f.matches(&m), r0);
        kani::cover!(r0);
        std::mem::forget(f);
        std::mem::forget(m);
    }
}

filter_stubs! {
    #[kani::unwind(6)]
    fn c11_new_filter_defaults() {
        // a filter without criteria matches every message (enabled by default), and rejects all when negated
        let k: u8 = kani::any();
        let kind = match k & 3 { 0 => FilterKind::Positive, 1 => FilterKind::Negative, 2 => FilterKind::Marker, _ => FilterKind::Event };
        let mut f = Filter::new(kind);
        let m = any_msg();
        assert!(f.enabled);
        assert!(f.matches(&m));
        f.negate_match = true;
        assert!(!f.matches(&m));
        f.enabled = false;
        assert!(!f.matches(&m));
        kani::cover!(m.extended_header.is_some());
        std::mem::forget(f);
        std::mem::forget(m);
    }
}

/// literal ids: exactly 4 bytes are accepted by Char4OrRegex::from_buf (and kept); shorter / longer buffers are refused
fn char4_from_buf_len<const N: usize>() {
    let b: [u8; N] = kani::any();
    let r = Char4OrRegex::from_buf(&b);
    match &r {
        Ok(Char4OrRegex::DltChar4(d)) => {
            assert_eq!(N, 4);
            assert_eq!(arr(d), [b[0], b[1], b[2], b[3 % N]]);
        }
        Ok(_) => assert!(false),
        Err(_) => {
            assert!(N != 4);
        }
    }
    std::mem::forget(r); // (drop glue of the Regex variant is enormous)
    kani::cover!(b[0] == 0, "NUL byte in id");
}
#[kani::proof]
#[kani::unwind(8)]
#[kani::stub(alloc::fmt::format, fmt_stub)]
fn c11_char4_from_buf_len4() {
    char4_from_buf_len::<4>();
}
#[kani::proof]
#[kani::unwind(8)]
#[kani::stub(alloc::fmt::format, fmt_stub)]
fn c11_char4_from_buf_len3() {
    char4_from_buf_len::<3>();
}
#[kani::proof]
#[kani::unwind(8)]
#[kani::stub(alloc::fmt::format, fmt_stub)]
fn c11_char4_from_buf_len5() {
    char4_from_buf_len::<5>();
}
pub fn fmt_stub(_args: std::fmt::Arguments<'_>) -> String {
    String::new()
}
